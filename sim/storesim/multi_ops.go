package storesim

import (
	"bytes"
	"fmt"
	"strings"

	"verif/sim/core"
	"verif/sim/simdb"

	"github.com/pokt-network/pocket-core/codec"
	codecTypes "github.com/pokt-network/pocket-core/codec/types"
	"github.com/pokt-network/pocket-core/store/iavl"
	"github.com/pokt-network/pocket-core/store/rootmulti"
	"github.com/pokt-network/pocket-core/store/types"
	amino "github.com/tendermint/go-amino"
	abci "github.com/tendermint/tendermint/abci/types"
	"github.com/tendermint/tendermint/crypto/merkle"
	"github.com/tendermint/tendermint/crypto/tmhash"
)

// ---------------------------------------------------------------- C05 proofs

func keyPath(store string, key []byte) string {
	kp := merkle.KeyPath{}
	kp = kp.AppendKey([]byte(store), merkle.KeyEncodingURL)
	kp = kp.AppendKey(key, merkle.KeyEncodingHex)
	return kp.String()
}

func cloneProof(p *merkle.Proof) *merkle.Proof {
	c := &merkle.Proof{}
	for _, op := range p.Ops {
		c.Ops = append(c.Ops, merkle.ProofOp{Type: op.Type, Key: append([]byte{}, op.Key...), Data: append([]byte{}, op.Data...)})
	}
	return c
}

func flip(b []byte) []byte {
	c := append([]byte{}, b...)
	if len(c) == 0 {
		return []byte{1}
	}
	c[len(c)/2] ^= 0x01
	return c
}

// leafPreimage is the byte string a leaf (key, hash of value, version) is hashed from. A store
// value is any byte string, so a client can store exactly these bytes under a key of its own.
func leafPreimage(key, valueHash []byte, version int64) []byte {
	buf := new(bytes.Buffer)
	_ = amino.EncodeInt8(buf, 0)
	_ = amino.EncodeVarint(buf, 1)
	_ = amino.EncodeVarint(buf, version)
	_ = amino.EncodeByteSlice(buf, key)
	_ = amino.EncodeByteSlice(buf, valueHash)
	return buf.Bytes()
}

// forgedValueFor is the value the carrier of a made-up leaf for key claims.
func forgedValueFor(key []byte) []byte { return append([]byte("forged-"), key...) }

// carrierValue is a store value that spells out the pre-image of a made-up leaf for key.
func carrierValue(key []byte) []byte { return leafPreimage(key, tmhash.Sum(forgedValueFor(key)), 1) }

// parseCarrier recognises a carrierValue and returns the key of the made-up leaf.
func parseCarrier(v []byte) ([]byte, bool) {
	if len(v) < 4 || v[0] != 0 || v[1] != 2 {
		return nil, false
	}
	rest := v[2:]
	ver, n, err := amino.DecodeVarint(rest)
	if err != nil || ver != 1 {
		return nil, false
	}
	rest = rest[n:]
	k, n, err := amino.DecodeByteSlice(rest)
	if err != nil {
		return nil, false
	}
	if !bytes.Equal(v, carrierValue(k)) {
		return nil, false
	}
	return k, true
}

// mutateRange returns copies of rp, each with exactly one node field altered.
func mutateRange(rp *iavl.RangeProof) (out []*iavl.RangeProof, labels []string) {
	cp := func() *iavl.RangeProof {
		c := &iavl.RangeProof{}
		c.LeftPath = append(iavl.PathToLeaf{}, rp.LeftPath...)
		for _, p := range rp.InnerNodes {
			c.InnerNodes = append(c.InnerNodes, append(iavl.PathToLeaf{}, p...))
		}
		c.Leaves = append([]iavl.ProofLeafNode{}, rp.Leaves...)
		return c
	}
	mutPath := func(get func(c *iavl.RangeProof) iavl.PathToLeaf, name string, n int) {
		for i := 0; i < n; i++ {
			for f := 0; f < 5; f++ {
				c := cp()
				nd := &get(c)[i]
				switch f {
				case 0:
					nd.Height++
				case 1:
					nd.Size++
				case 2:
					nd.Version++
				case 3:
					if len(nd.Left) == 0 {
						continue
					}
					nd.Left = flip(nd.Left)
				case 4:
					if len(nd.Right) == 0 {
						continue
					}
					nd.Right = flip(nd.Right)
				}
				out = append(out, c)
				labels = append(labels, fmt.Sprintf("%s[%d].%s", name, i, []string{"height", "size", "version", "left", "right"}[f]))
			}
			// the side the path descends into carries no hash; a node that names both is not the
			// node the tree holds
			c := cp()
			nd := &get(c)[i]
			filler := bytes.Repeat([]byte{0xA5}, 32)
			if len(nd.Left) == 0 {
				nd.Left = filler
				out = append(out, c)
				labels = append(labels, fmt.Sprintf("%s[%d].left-added", name, i))
			} else if len(nd.Right) == 0 {
				nd.Right = filler
				out = append(out, c)
				labels = append(labels, fmt.Sprintf("%s[%d].right-added", name, i))
			}
		}
	}
	mutPath(func(c *iavl.RangeProof) iavl.PathToLeaf { return c.LeftPath }, "left_path", len(rp.LeftPath))
	for j := range rp.InnerNodes {
		jj := j
		mutPath(func(c *iavl.RangeProof) iavl.PathToLeaf { return c.InnerNodes[jj] }, fmt.Sprintf("inner[%d]", j), len(rp.InnerNodes[j]))
	}
	for i := range rp.Leaves {
		for f := 0; f < 3; f++ {
			c := cp()
			switch f {
			case 0:
				c.Leaves[i].Key = flip(c.Leaves[i].Key)
			case 1:
				c.Leaves[i].ValueHash = flip(c.Leaves[i].ValueHash)
			case 2:
				c.Leaves[i].Version++
			}
			out = append(out, c)
			labels = append(labels, fmt.Sprintf("leaf[%d].%s", i, []string{"key", "value_hash", "version"}[f]))
		}
	}
	return
}

func (s *multiSim) prove(st *multiStep) {
	be := s.book[st.Ver]
	if be == nil || st.S >= len(s.keys) {
		return
	}
	name := s.keys[st.S].Name()
	key := core.UnHex(st.K)
	want, present := be.stores[st.S][string(key)]
	res := s.nodes[0].rs.Query(abci.RequestQuery{Path: "/" + name + "/key", Data: key, Height: st.Ver, Prove: true})
	kind := "absent"
	if present {
		kind = "present"
	}
	size := len(be.stores[st.S])
	pos := "mid"
	if size == 0 {
		pos = "empty-tree"
	} else {
		sp := sortedPairs(be.stores[st.S])
		if bytes.Compare(key, sp[0].k) < 0 {
			pos = "before-first"
		} else if bytes.Compare(key, sp[len(sp)-1].k) > 0 {
			pos = "after-last"
		}
		if size == 1 {
			pos += "/single-leaf"
		}
	}
	s.res.Case(fmt.Sprintf("prove/%s/%s", kind, pos))
	s.res.Probe("proof_" + kind)
	if res.Proof == nil || len(res.Proof.Ops) == 0 {
		s.violate("no-proof", kind, fmt.Sprintf("query %s key %x height %d returned no proof (code %d log %q)", name, key, st.Ver, res.Code, res.Log))
		return
	}
	if present != (res.Value != nil) || (present && !bytes.Equal(res.Value, want)) {
		s.violate("query-value", kind, fmt.Sprintf("query %s key %x height %d returned %x, committed value %x (present=%v)", name, key, st.Ver, res.Value, want, present))
		return
	}
	root := be.cid.Hash
	prt := rootmulti.DefaultProofRuntime()
	kp := keyPath(name, key)
	verify := func(p *merkle.Proof, root []byte, path string, value []byte, isPresent bool) error {
		if isPresent {
			return prt.VerifyValue(p, root, path, value)
		}
		return prt.VerifyAbsence(p, root, path)
	}
	// completeness
	if err := verify(res.Proof, root, kp, want, present); err != nil {
		s.violate("honest-proof-rejected", kind+"/"+pos, fmt.Sprintf("store %s key %x height %d: %v", name, key, st.Ver, err))
		return
	}
	// soundness: every single alteration must fail
	bad := func(label string, err error) {
		if err == nil {
			s.violate("altered-proof-accepted", kind+"/"+strings.SplitN(label, "[", 2)[0], fmt.Sprintf("store %s key %x height %d: verification passed with altered %s", name, key, st.Ver, label))
		}
	}
	nmut := 0
	bad("root", verify(res.Proof, flip(root), kp, want, present))
	bad("key", verify(res.Proof, root, keyPath(name, flip(key)), want, present))
	bad("store-name", verify(res.Proof, root, keyPath(name+"x", key), want, present))
	nmut += 3
	if present {
		bad("value", verify(res.Proof, root, kp, flip(want), true))
		bad("claim-absence-of-present-key", prt.VerifyAbsence(res.Proof, root, kp))
	} else {
		bad("claim-presence-of-absent-key", prt.VerifyValue(res.Proof, root, kp, []byte{1}))
	}
	nmut += 2
	// op 0: the IAVL op
	op0 := res.Proof.Ops[0]
	var rp *iavl.RangeProof
	if dec, err := iavl.ValueOpDecoder(op0); err == nil {
		rp = dec.(iavl.ValueOp).Proof
	} else if dec, err := iavl.AbsenceOpDecoder(op0); err == nil {
		rp = dec.(iavl.AbsenceOp).Proof
	}
	if rp != nil {
		muts, labels := mutateRange(rp)
		for i, m := range muts {
			p := cloneProof(res.Proof)
			if present {
				p.Ops[0] = iavl.NewValueOp(key, m).ProofOp()
			} else {
				p.Ops[0] = iavl.NewAbsenceOp(key, m).ProofOp()
			}
			bad(labels[i], verify(p, root, kp, want, present))
			nmut++
		}
	}
	// re-targeting: the same proof nodes offered for another key of the store. An absence proof
	// must never verify for a key that is present at that version; an existence proof must never
	// verify for another present key (with that key's own value).
	if rp != nil {
		for _, kv := range sortedPairs(be.stores[st.S]) {
			if bytes.Equal(kv.k, key) {
				continue
			}
			p := cloneProof(res.Proof)
			kp2 := keyPath(name, kv.k)
			if present {
				p.Ops[0] = iavl.NewValueOp(kv.k, rp).ProofOp()
				bad("retarget-to-other-present-key", prt.VerifyValue(p, root, kp2, kv.v))
			} else {
				p.Ops[0] = iavl.NewAbsenceOp(kv.k, rp).ProofOp()
				bad("retarget-to-present-key", prt.VerifyAbsence(p, root, kp2))
			}
			nmut++
		}
	}
	// forged proofs assembled from genuine pieces (the prover answers every query honestly; the
	// forger recombines what it was given)
	if rp != nil && present && len(res.Proof.Ops) > 1 {
		nmut += s.forgeAbsence(st, be, name, key, root, prt, res.Proof.Ops[1])
		nmut += s.forgeExistence(st, be, name, key, want, rp, root, prt, res.Proof.Ops[1])
	}
	// op 1: the multistore op — store names and hashes (the version of a store-info is not part
	// of the hash by design and is not altered)
	if len(res.Proof.Ops) > 1 {
		if dec, err := rootmulti.MultiStoreProofOpDecoder(res.Proof.Ops[1]); err == nil {
			mop := dec.(*rootmulti.MultiStoreProofOp)
			for i := range mop.Proof.StoreInfos {
				for f := 0; f < 2; f++ {
					infos := append([]rootmulti.StoreInfo{}, mop.Proof.StoreInfos...)
					label := ""
					if f == 0 {
						infos[i].Core.CommitID.Hash = flip(infos[i].Core.CommitID.Hash)
						label = fmt.Sprintf("store_info[%d].hash", i)
					} else {
						infos[i].Name += "x"
						label = fmt.Sprintf("store_info[%d].name", i)
					}
					p := cloneProof(res.Proof)
					p.Ops[1] = rootmulti.NewMultiStoreProofOp(mop.Key, rootmulti.NewMultiStoreProof(infos)).ProofOp()
					bad(label, verify(p, root, kp, want, present))
					nmut++
				}
			}
			// a second entry for the queried store, placed before the honest one and naming the
			// root of a tree the prover made up: the made-up value must not verify
			forgedVal := append([]byte("forged-"), key...)
			if ft, err := iavl.NewMutableTree(simdb.New(), 16); err == nil {
				ft.Set(key, forgedVal)
				ft.Set(append([]byte{0xff}, key...), []byte{1})
				if _, _, err := ft.SaveVersion(); err == nil {
					if _, frp, err := ft.GetWithProof(key); err == nil && frp != nil {
						infos := append([]rootmulti.StoreInfo{{Name: name, Core: rootmulti.StoreCore{CommitID: types.CommitID{Version: st.Ver, Hash: ft.Hash()}}}}, mop.Proof.StoreInfos...)
						p := cloneProof(res.Proof)
						p.Ops[0] = iavl.NewValueOp(key, frp).ProofOp()
						p.Ops[1] = rootmulti.NewMultiStoreProofOp(mop.Key, rootmulti.NewMultiStoreProof(infos)).ProofOp()
						if prt.VerifyValue(p, root, kp, forgedVal) == nil {
							s.violate("altered-proof-accepted", kind+"/store_info-duplicated-name", fmt.Sprintf("store %s key %x height %d: a value that was never stored (%x) verifies against the committed root when the proof lists the store twice", name, key, st.Ver, forgedVal))
						}
						nmut++
						s.res.Probe("proof_forged_substore_offered")
					}
				}
			}
		}
	}
	s.res.ProbeN("proof_mutations_checked", nmut)
}

// forgeAbsence tries to prove a stored key absent: the left path and leaf of a smaller stored key A
// and, as the "inner" path to the next leaf, the lower part of the path to a larger stored key C
// (nodes that carry LEFT hashes), so that A and C pass as neighbours over the keys between them.
func (s *multiSim) forgeAbsence(st *multiStep, be *bookEntry, name string, key, root []byte, prt *merkle.ProofRuntime, msOp merkle.ProofOp) int {
	pairs := sortedPairs(be.stores[st.S])
	ti := -1
	for i, p := range pairs {
		if bytes.Equal(p.k, key) {
			ti = i
		}
	}
	if ti <= 0 || ti >= len(pairs)-1 {
		return 0
	}
	rangeOf := func(k []byte) *iavl.RangeProof {
		q := s.nodes[0].rs.Query(abci.RequestQuery{Path: "/" + name + "/key", Data: k, Height: st.Ver, Prove: true})
		if q.Proof == nil || len(q.Proof.Ops) == 0 {
			return nil
		}
		if dec, err := iavl.ValueOpDecoder(q.Proof.Ops[0]); err == nil {
			return dec.(iavl.ValueOp).Proof
		}
		return nil
	}
	tried := 0
	for ai := ti - 1; ai >= 0 && tried < 24; ai-- {
		pa := rangeOf(pairs[ai].k)
		if pa == nil {
			continue
		}
		i := len(pa.LeftPath) - 1
		for i >= 0 && len(pa.LeftPath[i].Right) == 0 {
			i--
		}
		if i < 0 {
			continue
		}
		for ci := ti + 1; ci < len(pairs) && tried < 24; ci++ {
			pc := rangeOf(pairs[ci].k)
			if pc == nil || i >= len(pc.LeftPath) || len(pc.LeftPath[i].Left) == 0 {
				continue
			}
			same := true
			for j := 0; j < i; j++ {
				x, y := pa.LeftPath[j], pc.LeftPath[j]
				same = same && bytes.Equal(x.Left, y.Left) && bytes.Equal(x.Right, y.Right)
			}
			if !same {
				continue
			}
			tried++
			fake := &iavl.RangeProof{LeftPath: pa.LeftPath, InnerNodes: []iavl.PathToLeaf{pc.LeftPath[i+1:]}, Leaves: []iavl.ProofLeafNode{pa.Leaves[0], pc.Leaves[0]}}
			p := &merkle.Proof{Ops: []merkle.ProofOp{iavl.NewAbsenceOp(key, fake).ProofOp(), msOp}}
			s.res.Probe("proof_forged_absence_offered")
			if prt.VerifyAbsence(p, root, keyPath(name, key)) == nil {
				s.violate("forged-proof-accepted", "absence-of-stored-key/non-adjacent-leaves", fmt.Sprintf("store %s key %x is stored at height %d, yet an absence proof put together from the genuine existence proofs of %x and %x (which are not neighbours) verifies against the committed root", name, key, st.Ver, pairs[ai].k, pairs[ci].k))
				return tried
			}
		}
	}
	return tried
}

// forgeExistence tries to prove a key that is not stored: when the stored value of key spells out
// the pre-image of a made-up leaf, the stored leaf is offered as a path node (height 0, size 1,
// left = its key) above the made-up leaf.
func (s *multiSim) forgeExistence(st *multiStep, be *bookEntry, name string, key, value []byte, rp *iavl.RangeProof, root []byte, prt *merkle.ProofRuntime, msOp merkle.ProofOp) int {
	fk, ok := parseCarrier(value)
	if !ok || len(rp.Leaves) != 1 {
		return 0
	}
	if _, stored := be.stores[st.S][string(fk)]; stored {
		return 0
	}
	path := append(iavl.PathToLeaf{}, rp.LeftPath...)
	path = append(path, iavl.ProofInnerNode{Height: 0, Size: 1, Version: rp.Leaves[0].Version, Left: key})
	fake := &iavl.RangeProof{LeftPath: path, Leaves: []iavl.ProofLeafNode{{Key: fk, ValueHash: tmhash.Sum(forgedValueFor(fk)), Version: 1}}}
	p := &merkle.Proof{Ops: []merkle.ProofOp{iavl.NewValueOp(fk, fake).ProofOp(), msOp}}
	s.res.Probe("proof_forged_existence_offered")
	if prt.VerifyValue(p, root, keyPath(name, fk), forgedValueFor(fk)) == nil {
		s.violate("forged-proof-accepted", "existence-of-absent-key/leaf-offered-as-path-node", fmt.Sprintf("store %s key %x is not stored at height %d, yet an existence proof for value %x verifies against the committed root: the stored leaf %x, whose value spells out a leaf for %x, was offered as a path node", name, fk, st.Ver, forgedValueFor(fk), key, fk))
	}
	return 1
}

// ---------------------------------------------------------------- C09 store queries at a height

var queryCdc = codec.NewCodec(codecTypes.NewInterfaceRegistry())

// queryAt asks the multistore's query interface (the path behind the node's /store/<name>/...
// ABCI queries) for keys and for a key prefix at a committed height and compares the answers with
// what was committed at that height. The working tree may hold uncommitted writes at this point.
func (s *multiSim) queryAt(st *multiStep) {
	be := s.book[st.Ver]
	if be == nil {
		return
	}
	rs := s.nodes[0].rs
	for i, sk := range s.keys {
		if i >= len(be.stores) {
			break
		}
		m := be.stores[i]
		for _, kh := range st.Keys {
			k := core.UnHex(kh)
			if len(k) == 0 {
				continue
			}
			q := rs.Query(abci.RequestQuery{Path: "/" + sk.Name() + "/key", Data: k, Height: st.Ver})
			want, present := m[string(k)]
			if present != (q.Value != nil) || !bytes.Equal(q.Value, want) {
				s.violate("historical-query", "key", fmt.Sprintf("store %s key %x queried at height %d (latest %d, %d uncommitted writes): got %x, committed %x (present=%v)", sk.Name(), k, st.Ver, s.latest, len(s.pending), q.Value, want, present))
				return
			}
			// every key under the first byte of the key
			pfx := k[:1]
			q = rs.Query(abci.RequestQuery{Path: "/" + sk.Name() + "/subspace", Data: pfx, Height: st.Ver})
			var got []types.KVPair
			if len(q.Value) > 0 {
				if err := queryCdc.LegacyUnmarshalBinaryLengthPrefixed(q.Value, &got); err != nil {
					s.violate("historical-query", "subspace-undecodable", fmt.Sprintf("store %s prefix %x at height %d: %v", sk.Name(), pfx, st.Ver, err))
					return
				}
			}
			var wantKV []kvPair
			for _, p := range sortedPairs(m) {
				if bytes.HasPrefix(p.k, pfx) {
					wantKV = append(wantKV, p)
				}
			}
			same := len(got) == len(wantKV)
			for j := 0; same && j < len(got); j++ {
				same = bytes.Equal(got[j].Key, wantKV[j].k) && bytes.Equal(got[j].Value, wantKV[j].v)
			}
			if !same {
				// the recorded finding: the answer is the working tree's (height ignored, uncommitted
				// writes included); any other wrong answer is a different violation
				subject := "subspace"
				var wk []kvPair
				for _, p := range sortedPairs(s.work[i]) {
					if bytes.HasPrefix(p.k, pfx) {
						wk = append(wk, p)
					}
				}
				if len(got) == len(wk) {
					eq := true
					for j := range got {
						eq = eq && bytes.Equal(got[j].Key, wk[j].k) && bytes.Equal(got[j].Value, wk[j].v)
					}
					if eq {
						subject = "subspace-answered-from-working-tree"
					}
				}
				s.violate("historical-query", subject, fmt.Sprintf("store %s prefix %x queried at height %d (latest %d, %d uncommitted writes): got %d pairs %s, committed %d pairs %s", sk.Name(), pfx, st.Ver, s.latest, len(s.pending), len(got), renderKV(got), len(wantKV), renderPairs(wantKV)))
				return
			}
			s.res.Probe("historical_store_query_checked")
			if st.Ver < s.latest || len(s.pending) > 0 {
				s.res.Probe("historical_store_query_behind_working_tree")
			}
		}
	}
}

func renderKV(kv []types.KVPair) string {
	var b strings.Builder
	for i, p := range kv {
		if i == 6 {
			b.WriteString("…")
			break
		}
		fmt.Fprintf(&b, "%x=%x ", p.Key, p.Value)
	}
	return "[" + strings.TrimSpace(b.String()) + "]"
}

func renderPairs(kv []kvPair) string {
	var b strings.Builder
	for i, p := range kv {
		if i == 6 {
			b.WriteString("…")
			break
		}
		fmt.Fprintf(&b, "%x=%x ", p.k, p.v)
	}
	return "[" + strings.TrimSpace(b.String()) + "]"
}

// ---------------------------------------------------------------- C08 rollback

func (s *multiSim) rollback(st *multiStep) {
	target := st.Ver
	if target < 1 || target >= s.latest {
		return
	}
	s.res.Fault("rollback")
	n := s.nodes[0]
	oldLatest := s.latest
	s.views = nil
	// what the operator does: a fresh, mounted but unloaded store over the database
	rs := s.mount(n.db, n.cacheOn, n.iavlCache)
	if err := rs.RollbackVersion(target); err != nil {
		s.violate("rollback-error", "rollback", fmt.Sprintf("RollbackVersion(%d) from %d: %v", target, oldLatest, err))
		return
	}
	if err := s.open(n); err != nil {
		s.violate("reopen-after-rollback", "rollback", err.Error())
		return
	}
	be := s.book[target]
	got := n.rs.LastCommitID()
	if got.Version != target || !bytes.Equal(got.Hash, be.cid.Hash) {
		s.violate("rollback-commit-id", "rollback", fmt.Sprintf("after rollback to %d: LastCommitID %d/%x, committed then %d/%x", target, got.Version, got.Hash, be.cid.Version, be.cid.Hash))
	}
	rd := &multiStep{}
	s.checkStores("rollback-contents", n.rs, be.stores, rd)
	// no later version remains readable
	for v := target + 1; v <= oldLatest; v++ {
		if lz, err := n.rs.LoadLazyVersion(v); err == nil && lz != nil {
			s.violate("later-version-readable", "lazy", fmt.Sprintf("after rollback to %d version %d still loads", target, v))
			break
		}
		if _, err := n.rs.CacheMultiStoreWithVersion(v); err == nil {
			s.violate("later-version-readable", "cmsv", fmt.Sprintf("after rollback to %d version %d still loads", target, v))
			break
		}
		for i, k := range s.keys {
			for key := range s.book[v].stores[i] {
				q := n.rs.Query(abci.RequestQuery{Path: "/" + k.Name() + "/key", Data: []byte(key), Height: v})
				if q.Value != nil {
					s.violate("later-version-readable", "query", fmt.Sprintf("after rollback to %d a query at version %d returns %x", target, v, q.Value))
				}
				break
			}
		}
	}
	// earlier versions stay readable
	for v := int64(1); v <= target; v++ {
		lz, err := n.rs.LoadLazyVersion(v)
		if err != nil {
			s.violate("earlier-version-lost", "lazy", fmt.Sprintf("after rollback to %d version %d: %v", target, v, err))
			break
		}
		s.checkStores("earlier-version-contents", (*lz).(types.MultiStore), s.book[v].stores, rd)
	}
	// replay the same blocks: original hashes must come back
	replayed := 0
	for v := target + 1; v <= oldLatest; v++ {
		for _, o := range s.book[v].ops {
			s.applyWrite(n.rs, o)
		}
		cid := n.rs.Commit()
		if cid.Version != v || !bytes.Equal(cid.Hash, s.book[v].cid.Hash) {
			s.violate("replay-hash", "rollback", fmt.Sprintf("replaying block %d after rollback to %d gives %d/%x, originally %x", v, target, cid.Version, cid.Hash, s.book[v].cid.Hash))
			break
		}
		replayed++
	}
	// the run continues from the replayed tip; uncommitted writes made before the rollback are gone
	s.latest = target + int64(replayed)
	for v := s.latest + 1; v <= oldLatest; v++ {
		delete(s.book, v)
	}
	s.work = copyStores(s.book[s.latest].stores)
	s.pending = nil
	s.res.Case(fmt.Sprintf("rollback/depth=%d/replayed=%d", oldLatest-target, replayed))
}

// ---------------------------------------------------------------- C07 crash images

// crashCommit commits the pending block on the real node while logging every durable write
// unit, then rebuilds every crash image of that commit and checks recovery on each.
func (s *multiSim) crashCommit(st *multiStep) {
	n := s.nodes[0]
	base := n.db.Snapshot()
	block := append([]wop{}, s.pending...)
	prev := s.latest
	n.db.TakeLog()
	n.db.Logging = true
	s.commitAll()
	n.db.Logging = false
	units := n.db.TakeLog()
	newCid := s.book[s.latest].cid

	// group the units: one list per sub-store, plus the multistore's own records
	groups := map[string][]simdb.Unit{}
	var final []simdb.Unit
	for _, u := range units {
		owner := ""
		for _, o := range u.Ops {
			k := string(o.K)
			var w string
			if strings.HasPrefix(k, "s/k:") {
				rest := k[len("s/k:"):]
				w = rest[:strings.Index(rest, "/")]
			} else {
				w = "\x00multistore"
			}
			if owner == "" {
				owner = w
			} else if owner != w {
				panic(fmt.Sprintf("HARNESS: one write unit spans %q and %q; crash image reconstruction is unsound", owner, w))
			}
		}
		if owner == "\x00multistore" {
			final = append(final, u)
		} else if owner != "" {
			groups[owner] = append(groups[owner], u)
		}
	}
	names := make([]string, 0, len(s.keys))
	for _, k := range s.keys {
		names = append(names, k.Name())
	}
	for g := range groups {
		found := false
		for _, nm := range names {
			if nm == g {
				found = true
			}
		}
		if !found {
			panic("HARNESS: write unit for unknown sub-store " + g)
		}
	}
	type image struct {
		label string
		db    *simdb.DB
		done  bool
	}
	var images []image
	k := len(names)
	build := func(mask int, partialOf int, cut int, withFinal int) *simdb.DB {
		d := base.Snapshot()
		for i, nm := range names {
			if mask&(1<<i) != 0 {
				for _, u := range groups[nm] {
					d.ApplyUnit(u)
				}
			} else if i == partialOf {
				for _, u := range groups[nm][:cut] {
					d.ApplyUnit(u)
				}
			}
		}
		for _, u := range final[:withFinal] {
			d.ApplyUnit(u)
		}
		return d
	}
	for mask := 0; mask < 1<<k; mask++ {
		images = append(images, image{fmt.Sprintf("saved=%0*b", k, mask), build(mask, -1, 0, 0), false})
		for i, nm := range names {
			if mask&(1<<i) == 0 && len(groups[nm]) > 1 {
				for cut := 1; cut < len(groups[nm]); cut++ {
					images = append(images, image{fmt.Sprintf("saved=%0*b+%s[:%d]", k, mask, nm, cut), build(mask, i, cut, 0), false})
				}
			}
		}
	}
	full := 1<<k - 1
	for f := 1; f <= len(final); f++ {
		images = append(images, image{fmt.Sprintf("saved=all+final[:%d]", f), build(full, -1, 0, f), f == len(final)})
	}
	s.res.Fault("crash_commit")
	for _, im := range images {
		s.res.Probe("crash_images")
		s.recoverFrom(im.label, im.db, im.done, prev, block, newCid, len(final))
	}
	s.res.Case(fmt.Sprintf("crash/k=%d/writes=%d/prev=%d", k, len(block), minI64(prev, 3)))
}

func minI64(a, b int64) int64 {
	if a < b {
		return a
	}
	return b
}

func (s *multiSim) recoverFrom(label string, img *simdb.DB, done bool, prev int64, block []wop, newCid types.CommitID, nfinal int) {
	subject := "partial"
	if done {
		subject = "complete"
	} else if strings.Contains(label, "final") {
		subject = "final-batch-split"
	}
	if prev == 0 {
		subject += "/first-commit"
	}
	fail := func(oracle, detail string) {
		s.violate(oracle, subject, fmt.Sprintf("crash image %s of commit %d: %s", label, prev+1, detail))
	}
	var rs *rootmulti.Store
	var err error
	func() {
		defer func() {
			if p := recover(); p != nil {
				err = fmt.Errorf("panic: %v", p)
			}
		}()
		rs = s.mount(img, false, s.cfg.IavlCache)
		err = rs.LoadLatestVersion()
	}()
	if err != nil {
		fail("reopen-fails", err.Error())
		return
	}
	wantVer, wantStores := prev, []map[string][]byte(nil)
	wantHash := []byte(nil)
	if prev > 0 {
		wantStores, wantHash = s.book[prev].stores, s.book[prev].cid.Hash
	} else {
		wantStores = make([]map[string][]byte, len(s.keys))
		for i := range wantStores {
			wantStores[i] = map[string][]byte{}
		}
	}
	if done {
		wantVer, wantStores, wantHash = prev+1, s.book[prev+1].stores, newCid.Hash
	}
	if !done && nfinal > 1 && strings.Contains(label, "final") {
		// the multistore's own records are written in one batch today; if a change splits them,
		// either side of the split is acceptable only if it is self-consistent — checked below by
		// requiring one of the two committed states.
		got := rs.LastCommitID()
		if got.Version == prev+1 {
			wantVer, wantStores, wantHash = prev+1, s.book[prev+1].stores, newCid.Hash
			done = true
		}
	}
	got := rs.LastCommitID()
	if got.Version != wantVer || !bytes.Equal(got.Hash, wantHash) {
		fail("recovered-commit-id", fmt.Sprintf("LastCommitID %d/%x, last fully committed %d/%x", got.Version, got.Hash, wantVer, wantHash))
		return
	}
	for i, k := range s.keys {
		gotT := transcript(rs.GetKVStore(k), nil, nil)
		wantT := modelTranscript(wantStores[i], nil, nil)
		if d := firstDiff(gotT, wantT); d != "" {
			fail("recovered-contents", fmt.Sprintf("store %s: %s", k.Name(), d))
			return
		}
	}
	func() {
		defer func() {
			if p := recover(); p != nil {
				fail("re-execution-panics", fmt.Sprint(p))
			}
		}()
		if !done {
			for _, o := range block {
				s.applyWrite(rs, o)
			}
			cid := rs.Commit()
			if cid.Version != newCid.Version || !bytes.Equal(cid.Hash, newCid.Hash) {
				fail("re-execution-hash", fmt.Sprintf("re-executed block gives %d/%x, uninterrupted run %d/%x", cid.Version, cid.Hash, newCid.Version, newCid.Hash))
				return
			}
		}
		// bounded liveness: the next block commits too
		_ = rs.GetKVStore(s.keys[0]).Set([]byte{0x42}, []byte{byte(prev)})
		cid := rs.Commit()
		if cid.Version != newCid.Version+1 {
			fail("next-block", fmt.Sprintf("next commit has version %d", cid.Version))
		}
	}()
}
