package storesim

// rootmulti-level simulation: C04 (multistore reopen, twin hashes), C05 (proofs), C07 (crash
// images of a commit), C08 (rollback), C09 (historical views), C10 (height cache on vs off).

import (
	"bytes"
	"fmt"
	"sort"
	"strings"

	"verif/sim/core"
	"verif/sim/simdb"

	"github.com/pokt-network/pocket-core/store/rootmulti"
	"github.com/pokt-network/pocket-core/store/types"
)

type multiCfg struct {
	Kind      string `json:"kind"` // "multi"
	K         int    `json:"k"`
	IavlCache int64  `json:"iavl_cache"`
	TwinCache int64  `json:"twin_cache"`
	Steps     int    `json:"n"`
}

type multiStep struct {
	Op     string       `json:"op"`
	S      int          `json:"s,omitempty"`
	K      string       `json:"k,omitempty"`
	V      string       `json:"v,omitempty"`
	Ver    int64        `json:"ver,omitempty"`
	View   int          `json:"view,omitempty"`
	Mode   string       `json:"mode,omitempty"`
	Keys   []string     `json:"keys,omitempty"`
	Ranges [][2]*string `json:"ranges,omitempty"`
	Cache  int64        `json:"cache,omitempty"`
	Add    bool         `json:"add,omitempty"` // reopen with one more sub-store mounted (an upgrade that adds a module)
}

type wop struct {
	s   int
	del bool
	k   []byte
	v   []byte
}

type bookEntry struct {
	stores []map[string][]byte
	cid    types.CommitID
	ops    []wop // the writes of the block that produced this version
}

type msNode struct {
	name      string
	db        *simdb.DB
	rs        *rootmulti.Store
	cacheOn   bool
	iavlCache int64
}

type heldView struct {
	id   int
	ver  int64
	mode string
	ms   []types.MultiStore // one per node
}

type multiSim struct {
	prop    string
	res     *core.Result
	cfg     multiCfg
	keys    []*types.KVStoreKey
	grown   bool   // a sub-store was added after the first commit
	twrites int    // C06: transient writes on node 0 since the last commit
	tmode   string // C06: how they were written (direct | cms | nested | mixed)
	tkey    *types.TransientStoreKey
	nodes   []*msNode
	work    []map[string][]byte
	pending []wop
	book    map[int64]*bookEntry
	latest  int64
	views   []*heldView
	nextV   int
	stepNo  int
}

func (s *multiSim) violate(oracle, subject, detail string) {
	s.res.Violate(s.prop, oracle, subject, detail, s.stepNo)
}

func (s *multiSim) mount(db *simdb.DB, cacheOn bool, iavlCache int64) *rootmulti.Store {
	rs := rootmulti.NewStore(db, cacheOn, iavlCache)
	rs.SetPruning(types.PruneNothing)
	for _, k := range s.keys {
		rs.MountStoreWithDB(k, types.StoreTypeIAVL, nil)
	}
	rs.MountStoreWithDB(s.tkey, types.StoreTypeTransient, nil)
	return rs
}

func (s *multiSim) open(n *msNode) error {
	n.rs = s.mount(n.db, n.cacheOn, n.iavlCache)
	return n.rs.LoadLatestVersion()
}

func copyStores(w []map[string][]byte) []map[string][]byte {
	out := make([]map[string][]byte, len(w))
	for i := range w {
		out[i] = copyMap(w[i])
	}
	return out
}

// transcript performs the given reads on st and renders the results canonically
// (nil and empty are rendered differently).
func transcript(st types.KVStore, keys []string, ranges [][2]*string) (out []string) {
	rd := func(label string, f func() string) {
		defer func() {
			if p := recover(); p != nil {
				out = append(out, label+" -> PANIC "+strings.SplitN(fmt.Sprint(p), "\n", 2)[0])
			}
		}()
		out = append(out, label+" -> "+f())
	}
	for _, kh := range keys {
		k := core.UnHex(kh)
		rd("get "+kh, func() string {
			v, _ := st.Get(k)
			if v == nil {
				return "nil"
			}
			return "x" + core.Hex(v)
		})
		rd("has "+kh, func() string { h, _ := st.Has(k); return fmt.Sprint(h) })
	}
	all := append([][2]*string{{nil, nil}}, ranges...)
	for _, rg := range all {
		sb, eb := optBytes(rg[0]), optBytes(rg[1])
		for _, rev := range []bool{false, true} {
			rd(fmt.Sprintf("iter %x %x rev=%v", sb, eb, rev), func() string {
				var it types.Iterator
				if rev {
					it, _ = st.ReverseIterator(sb, eb)
				} else {
					it, _ = st.Iterator(sb, eb)
				}
				defer it.Close()
				var b strings.Builder
				n := 0
				for ; it.Valid(); it.Next() {
					fmt.Fprintf(&b, "%x=%x,", it.Key(), it.Value())
					if n++; n > 10000 {
						b.WriteString("…unbounded")
						break
					}
				}
				return "[" + b.String() + "]"
			})
		}
	}
	return out
}

func modelTranscript(m map[string][]byte, keys []string, ranges [][2]*string) (out []string) {
	for _, kh := range keys {
		v, ok := m[string(core.UnHex(kh))]
		if ok {
			out = append(out, "get "+kh+" -> x"+core.Hex(v))
		} else {
			out = append(out, "get "+kh+" -> nil")
		}
		out = append(out, "has "+kh+" -> "+fmt.Sprint(ok))
	}
	all := append([][2]*string{{nil, nil}}, ranges...)
	for _, rg := range all {
		sb, eb := optBytes(rg[0]), optBytes(rg[1])
		for _, rev := range []bool{false, true} {
			var b strings.Builder
			for _, p := range rangeOf(m, sb, eb, rev) {
				fmt.Fprintf(&b, "%x=%x,", p.k, p.v)
			}
			out = append(out, fmt.Sprintf("iter %x %x rev=%v -> [%s]", sb, eb, rev, b.String()))
		}
	}
	return out
}

func firstDiff(a, b []string) string {
	for i := 0; i < len(a) && i < len(b); i++ {
		if a[i] != b[i] {
			return fmt.Sprintf("%q vs %q", a[i], b[i])
		}
	}
	if len(a) != len(b) {
		return fmt.Sprintf("transcript lengths %d vs %d", len(a), len(b))
	}
	return ""
}

func opKind(d string) string { // normalised subject from a transcript line: "get", "has", "iter"
	f := strings.Fields(strings.Trim(d, "\""))
	if len(f) > 0 {
		return f[0]
	}
	return "?"
}

// checkStores compares every sub-store of ms with the model (full contents + the given reads).
func (s *multiSim) checkStores(oracle string, ms types.MultiStore, model []map[string][]byte, st *multiStep) {
	for i, k := range s.keys {
		got := transcript(ms.GetKVStore(k), st.Keys, st.Ranges)
		m := map[string][]byte{}
		if i < len(model) {
			m = model[i]
		}
		want := modelTranscript(m, st.Keys, st.Ranges)
		if d := firstDiff(got, want); d != "" {
			s.violate(oracle, opKind(d), fmt.Sprintf("store %s: %s", k.Name(), d))
			return
		}
	}
}

func (s *multiSim) applyWrite(rs *rootmulti.Store, o wop) {
	kv := rs.GetKVStore(s.keys[o.s])
	if o.del {
		_ = kv.Delete(o.k)
	} else {
		_ = kv.Set(o.k, o.v)
	}
}

func (s *multiSim) commitAll() {
	var first types.CommitID
	for i, n := range s.nodes {
		cid := n.rs.Commit()
		if i == 0 {
			first = cid
			if cid.Version != s.latest+1 {
				s.violate("commit-version", "commit", fmt.Sprintf("commit returned version %d after %d", cid.Version, s.latest))
			}
		} else if s.prop == "C04" && !bytes.Equal(cid.Hash, first.Hash) {
			s.violate("twin-hash", "multistore", fmt.Sprintf("version %d: %s hash %x, %s hash %x", cid.Version, s.nodes[0].name, first.Hash, n.name, cid.Hash))
		} else if s.prop == "C06" && !bytes.Equal(cid.Hash, first.Hash) {
			// the twin received the same persistent writes and no transient ones
			s.violate("transient-writes-changed-commit-hash", "multistore", fmt.Sprintf("version %d: node with %d transient writes in this block hashes to %x, the twin without them to %x", cid.Version, s.twrites, first.Hash, cid.Hash))
		}
	}
	if s.prop == "C06" {
		// a transient store is empty again once the block is committed, however it was written
		it, _ := s.nodes[0].rs.GetKVStore(s.tkey).Iterator(nil, nil)
		left := 0
		var firstKey []byte
		for ; it.Valid(); it.Next() {
			if left == 0 {
				firstKey = append([]byte{}, it.Key()...)
			}
			left++
		}
		it.Close()
		if left > 0 {
			if s.tmode == "" {
				s.tmode = "written-in-an-earlier-block"
			}
			s.violate("transient-survives-commit", s.tmode, fmt.Sprintf("after the commit of version %d the transient store still holds %d keys (first %x), written %s", s.latest+1, left, firstKey, s.tmode))
		}
		if s.twrites > 0 {
			s.res.Probe("commit_after_transient_writes")
		}
		s.res.Case(fmt.Sprintf("c06/commit/twrites=%d/mode=%s", min(s.twrites, 3), s.tmode))
		s.twrites, s.tmode = 0, ""
	}
	s.latest++
	s.book[s.latest] = &bookEntry{stores: copyStores(s.work), cid: first, ops: s.pending}
	s.pending = nil
}

func (s *multiSim) exec(st *multiStep) {
	switch st.Op {
	case "set", "del":
		if st.S >= len(s.keys) {
			return
		}
		o := wop{s: st.S, del: st.Op == "del", k: core.UnHex(st.K)}
		if !o.del {
			o.v = core.UnHex(st.V)
			s.work[o.s][string(o.k)] = o.v
		} else {
			delete(s.work[o.s], string(o.k))
		}
		for _, n := range s.nodes {
			s.applyWrite(n.rs, o)
		}
		s.pending = append(s.pending, o)
	case "tset":
		// node 0 only: the twin never sees a transient write
		rs := s.nodes[0].rs
		k, v := core.UnHex(st.K), core.UnHex(st.V)
		switch st.Mode {
		case "cms":
			c := rs.CacheMultiStore()
			c.GetKVStore(s.tkey).Set(k, v)
			c.Write()
		case "nested":
			c := rs.CacheMultiStore()
			c2 := c.CacheMultiStore()
			c2.GetKVStore(s.tkey).Set(k, v)
			c2.Write()
			c.Write()
		default:
			_ = rs.GetKVStore(s.tkey).Set(k, v)
		}
		if got, _ := rs.GetKVStore(s.tkey).Get(k); !bytes.Equal(got, v) {
			s.violate("transient-write-lost", st.Mode, fmt.Sprintf("transient key %x written %s reads back %x", k, st.Mode, got))
		}
		s.twrites++
		if s.tmode == "" || s.tmode == st.Mode {
			s.tmode = st.Mode
		} else {
			s.tmode = "mixed"
		}
		s.res.Fault("transient_write_" + st.Mode)
	case "commit":
		s.commitAll()
	case "reopen":
		s.res.Fault("reopen")
		s.views = nil
		added := false
		if st.Add && s.prop == "C04" && len(s.keys) < 8 {
			// a sub-store that starts its own version history while the multistore is at version N
			s.keys = append(s.keys, types.NewKVStoreKey(fmt.Sprintf("s%d", len(s.keys))))
			added = true
			s.grown = true
			s.res.Fault("reopen_with_added_substore")
		}
		for i, n := range s.nodes {
			if s.prop == "C04" && i > 0 && len(s.pending) == 0 && !added {
				// the twin is not reopened unless it has uncommitted writes to forget
				continue
			}
			if i == 0 && st.Cache != 0 {
				n.iavlCache = st.Cache
			}
			if err := s.open(n); err != nil {
				s.violate("reopen-fails", "multistore", err.Error())
				return
			}
		}
		if len(s.pending) > 0 {
			s.res.Probe("reopen_discards_uncommitted")
		}
		s.pending = nil
		if s.latest > 0 {
			s.work = copyStores(s.book[s.latest].stores)
			for len(s.work) < len(s.keys) {
				s.work = append(s.work, map[string][]byte{})
			}
		} else {
			s.work = make([]map[string][]byte, len(s.keys))
			for i := range s.work {
				s.work[i] = map[string][]byte{}
			}
		}
		n0 := s.nodes[0]
		want := types.CommitID{}
		if s.latest > 0 {
			want = s.book[s.latest].cid
		}
		got := n0.rs.LastCommitID()
		if got.Version != want.Version || !bytes.Equal(got.Hash, want.Hash) {
			s.violate("reopen-commit-id", "multistore", fmt.Sprintf("LastCommitID after reopen %d/%x, committed %d/%x", got.Version, got.Hash, want.Version, want.Hash))
		}
		if s.prop == "C04" || s.prop == "C09" {
			s.checkStores("reopen-contents", n0.rs, s.work, st)
			if s.prop == "C04" {
				vs := s.versions()
				for _, ver := range vs {
					if len(s.book[ver].stores) < len(s.keys) {
						continue // saved before the newest sub-store existed: not a version of the present store set
					}
					if s.grown {
						// sub-stores with version histories of different length: reopen at that version
						// proper (a fresh mount and LoadVersion); the lazy historical loader addresses every
						// sub-store by the multistore's version number and is not judged here
						fresh := s.mount(n0.db, n0.cacheOn, n0.iavlCache)
						if err := fresh.LoadVersion(ver); err != nil {
							s.violate("reopen-version-unreadable", "multistore", fmt.Sprintf("version %d: %v", ver, err))
							continue
						}
						s.checkStores("reopen-version-contents", fresh, s.book[ver].stores, st)
						s.res.Probe("reopen_at_version_after_substore_added")
						continue
					}
					lz, err := n0.rs.LoadLazyVersion(ver)
					if err != nil {
						s.violate("reopen-version-unreadable", "multistore", fmt.Sprintf("version %d: %v", ver, err))
						continue
					}
					s.checkStores("reopen-version-contents", (*lz).(types.MultiStore), s.book[ver].stores, st)
				}
				s.res.Case(fmt.Sprintf("reopen/versions=%d", len(vs)))
			}
		}
	case "view":
		if st.Ver < 1 {
			return
		}
		hv := &heldView{id: s.nextV, ver: st.Ver, mode: st.Mode}
		s.nextV++
		for _, n := range s.nodes {
			var ms types.MultiStore
			var err error
			if st.Mode == "cmsv" {
				ms, err = n.rs.CacheMultiStoreWithVersion(st.Ver)
			} else {
				var p *types.Store
				p, err = n.rs.LoadLazyVersion(st.Ver)
				if err == nil {
					ms = (*p).(types.MultiStore)
				}
			}
			if st.Ver > s.latest {
				if err == nil {
					s.violate("future-version-readable", st.Mode, fmt.Sprintf("version %d opened on %s, latest is %d", st.Ver, n.name, s.latest))
				}
				return
			}
			if err != nil {
				s.violate("retained-version-unreadable", st.Mode, fmt.Sprintf("version %d on %s: %v", st.Ver, n.name, err))
				return
			}
			hv.ms = append(hv.ms, ms)
		}
		s.views = append(s.views, hv)
		s.readView(hv, st)
		if s.prop == "C09" {
			s.queryAt(st)
		}
	case "read":
		for _, hv := range s.views {
			if hv.id == st.View {
				if hv.ver < s.latest {
					s.res.Probe("view_read_after_later_commit")
				}
				s.readView(hv, st)
			}
		}
	case "prove":
		s.prove(st)
	case "rollback":
		s.rollback(st)
	case "crashcommit":
		s.crashCommit(st)
	}
}

func (s *multiSim) versions() []int64 {
	vs := make([]int64, 0, len(s.book))
	for v := range s.book {
		vs = append(vs, v)
	}
	sort.Slice(vs, func(i, j int) bool { return vs[i] < vs[j] })
	return vs
}

func (s *multiSim) readView(hv *heldView, st *multiStep) {
	model := s.book[hv.ver].stores
	if s.prop == "C10" {
		// cache on (node 0) against cache off (node 1), same reads
		for i, k := range s.keys {
			on := transcript(hv.ms[0].GetKVStore(k), st.Keys, st.Ranges)
			off := transcript(hv.ms[1].GetKVStore(k), st.Keys, st.Ranges)
			if d := firstDiff(on, off); d != "" {
				s.violate("cache-on-vs-off", opKind(d), fmt.Sprintf("height %d (latest %d) store %s: cache on %s cache off", hv.ver, s.latest, k.Name(), d))
				_ = i
				break
			}
		}
		if hv.ver != s.latest && hv.ver > s.latest-12 {
			s.res.Probe("read_at_cached_height")
			s.res.Case(fmt.Sprintf("cached/lag=%d/keys=%d/ranges=%d", s.latest-hv.ver, len(st.Keys), len(st.Ranges)))
		}
		return
	}
	s.checkStores("historical-read", hv.ms[0], model, st)
	s.res.Case(fmt.Sprintf("view/%s/lag=%d", hv.mode, s.latest-hv.ver))
}

func (s *multiSim) genReads(r *core.Rand, st *multiStep) {
	for i := 0; i < 3; i++ {
		st.Keys = append(st.Keys, core.Hex(genKey(r, 2)))
	}
	for i := 0; i < 2; i++ {
		st.Ranges = append(st.Ranges, [2]*string{genBound(r), genBound(r)})
	}
}

func (s *multiSim) gen(r *core.Rand) *multiStep {
	// weights:        set del commit reopen view read prove rollback crashcommit
	w := []int{34, 12, 12, 0, 0, 0, 0, 0, 0}
	if s.prop == "C06" && r.Chance(0.2) {
		return &multiStep{Op: "tset", Mode: []string{"direct", "cms", "nested"}[r.Intn(3)], K: core.Hex(genKey(r, 2)), V: core.Hex(r.Bytes(1 + r.Intn(3)))}
	}
	switch s.prop {
	case "C06":
		w[3] = 2
	case "C04":
		w[3] = 5
	case "C05":
		w[6] = 14
	case "C07":
		w[8] = 6
		w[3] = 1
	case "C08":
		w[7] = 3
	case "C09":
		w[3], w[4], w[5] = 2, 8, 10
	case "C10":
		w[3], w[4], w[5] = 2, 10, 8
	}
	if s.latest == 0 {
		w[4], w[6], w[7] = 0, 0, 0
	}
	if len(s.views) == 0 {
		w[5] = 0
	}
	if s.latest < 2 {
		w[7] = 0
	}
	switch r.Weighted(w) {
	case 0:
		if s.prop == "C05" && r.Chance(0.06) {
			// a value that spells out the pre-image of a leaf for some other key
			return &multiStep{Op: "set", S: r.Intn(len(s.keys)), K: core.Hex(genKey(r, 2)), V: core.Hex(carrierValue(genKey(r, 2)))}
		}
		return &multiStep{Op: "set", S: r.Intn(len(s.keys)), K: core.Hex(genKey(r, 2)), V: genVal(r, s.stepNo, 3)}
	case 1:
		st := &multiStep{Op: "del", S: r.Intn(len(s.keys))}
		if p := sortedPairs(s.work[st.S]); len(p) > 0 && r.Chance(0.8) {
			st.K = core.Hex(p[r.Intn(len(p))].k)
		} else {
			st.K = core.Hex(genKey(r, 2))
		}
		return st
	case 2:
		return &multiStep{Op: "commit"}
	case 3:
		st := &multiStep{Op: "reopen", Cache: []int64{1, 2, 8, 10000}[r.Intn(4)]}
		if s.prop == "C04" && s.latest > 0 && len(s.pending) == 0 && r.Chance(0.25) {
			st.Add = true
		}
		s.genReads(r, st)
		return st
	case 4:
		st := &multiStep{Op: "view", Mode: []string{"lazy", "cmsv"}[r.Intn(2)]}
		lo := 1
		if s.prop == "C10" && s.latest > 13 {
			lo = int(s.latest) - 13
		}
		st.Ver = int64(r.Range(lo, int(s.latest)+1))
		if st.Ver > s.latest && r.Chance(0.7) {
			st.Ver = s.latest
		}
		s.genReads(r, st)
		return st
	case 5:
		st := &multiStep{Op: "read", View: s.views[r.Intn(len(s.views))].id}
		s.genReads(r, st)
		return st
	case 6:
		st := &multiStep{Op: "prove", S: r.Intn(len(s.keys)), Ver: int64(r.Range(1, int(s.latest)))}
		m := s.book[st.Ver].stores[st.S]
		if p := sortedPairs(m); len(p) > 0 && r.Chance(0.5) {
			st.K = core.Hex(p[r.Intn(len(p))].k)
		} else {
			st.K = core.Hex(genKey(r, 2))
		}
		return st
	case 7:
		return &multiStep{Op: "rollback", Ver: int64(r.Range(1, int(s.latest)-1))}
	default:
		return &multiStep{Op: "crashcommit"}
	}
}

func runMulti(prop string, seed uint64, tier string, replay *core.Schedule) (*core.Schedule, *core.Result) {
	r := core.NewRand(seed)
	res := core.NewResult(seed)
	var cfg multiCfg
	if replay != nil {
		core.Dec(replay.Config, &cfg)
	} else {
		caches := []int64{1, 2, 8, 10000}
		cfg = multiCfg{Kind: "multi", K: r.Range(1, 5), IavlCache: caches[r.Intn(4)], TwinCache: caches[r.Intn(4)], Steps: r.Range(30, 220)}
		if prop == "C07" {
			cfg.K = r.Range(2, 6)
		}
	}
	s := &multiSim{prop: prop, res: res, cfg: cfg, book: map[int64]*bookEntry{}}
	for i := 0; i < cfg.K; i++ {
		s.keys = append(s.keys, types.NewKVStoreKey(fmt.Sprintf("s%d", i)))
		s.work = append(s.work, map[string][]byte{})
	}
	s.tkey = types.NewTransientStoreKey("t0")
	s.nodes = []*msNode{{name: "node", db: simdb.New(), iavlCache: cfg.IavlCache}}
	switch prop {
	case "C04", "C06":
		s.nodes = append(s.nodes, &msNode{name: "twin", db: simdb.New(), iavlCache: cfg.TwinCache})
	case "C09":
		// historical reads with and without the height cache in front of the trees
		s.nodes[0].cacheOn = seed%2 == 1
	case "C10":
		s.nodes[0].cacheOn = true
		s.nodes[0].name = "cache-on"
		s.nodes = append(s.nodes, &msNode{name: "cache-off", db: simdb.New(), iavlCache: cfg.IavlCache})
	}
	for _, n := range s.nodes {
		if err := s.open(n); err != nil {
			panic(err)
		}
	}
	sched := &core.Schedule{Engine: "storesim", Property: prop, Seed: seed, Tier: tier, Config: core.Enc(cfg)}
	if replay == nil && tier == "thorough" && seed%2 == 0 {
		// the thorough tier also runs long histories (the configuration records the length)
		cfg.Steps *= 3
	}
	n := cfg.Steps
	if replay != nil {
		n = len(replay.Steps)
	}
	for i := 0; i < n; i++ {
		s.stepNo = i
		st := &multiStep{}
		if replay != nil {
			core.Dec(replay.Steps[i], st)
		} else {
			st = s.gen(r)
		}
		sched.Steps = append(sched.Steps, core.Enc(st))
		ok := guard(res, prop, st.Op, i, func() { s.exec(st) })
		res.Logf("%d %s v=%d", i, string(sched.Steps[i]), len(res.Violations))
		if !ok {
			break
		}
	}
	res.Steps = n
	res.SchedFP = core.FP(fmt.Sprint(cfg))
	res.Finish()
	return sched, res
}
