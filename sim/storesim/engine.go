// Package storesim drives the storage stack alone (rootmulti, iavl, height cache, cachekv,
// prefix, transient) over the simulated disk with generated operation histories.
package storesim

import (
	"encoding/json"
	"fmt"
	"strings"

	"verif/sim/core"
)

// guard runs one step; a panic inside the code under test is not what the reference model
// answers, so it is a violation of the property being checked. Harness assertions re-panic.
func guard(res *core.Result, prop, op string, step int, f func()) (ok bool) {
	defer func() {
		if p := recover(); p != nil {
			msg := fmt.Sprint(p)
			if strings.HasPrefix(msg, "HARNESS") {
				panic(p)
			}
			res.Violate(prop, "panic", op, "panic: "+msg, step)
			ok = false
		}
	}()
	f()
	return true
}

func cfgKind(replay *core.Schedule) string {
	var c struct {
		Kind string `json:"kind"`
	}
	_ = json.Unmarshal(replay.Config, &c)
	return c.Kind
}

type engine struct{}

func (engine) Name() string { return "storesim" }

func (engine) Run(prop string, seed uint64, tier string, replay *core.Schedule) (*core.Schedule, *core.Result) {
	if prop == "C09" && ((replay != nil && replay.Engine == "chainsim") || (replay == nil && seed%3 == 2)) {
		// every third seed: historical queries against a whole node (contexts, keepers, caches)
		if e, ok := core.Engines["chainsim"]; ok {
			return e.Run(prop, seed, tier, replay)
		}
	}
	if prop == "C07" && ((replay != nil && replay.Engine == "chainsim") || (replay == nil && seed%3 == 2)) {
		// every third seed: the same question asked of a whole node (application-level crash images)
		if e, ok := core.Engines["chainsim"]; ok {
			return e.Run(prop, seed, tier, replay)
		}
	}
	switch prop {
	case "C01", "C02":
		return runKV(prop, seed, tier, replay)
	case "C03":
		return runTree(prop, seed, tier, replay)
	case "C04":
		if (replay != nil && cfgKind(replay) == "tree") || (replay == nil && seed%2 == 0) {
			return runTree(prop, seed, tier, replay)
		}
		return runMulti(prop, seed, tier, replay)
	default:
		return runMulti(prop, seed, tier, replay)
	}
}

func init() { core.Register(engine{}) }
