package storesim

// C03 (versioned tree is a correct ordered map, balanced, with correct sizes) and the tree half of
// C04 (reopen reproduces every saved version; two nodes get identical root hashes).

import (
	"bytes"
	"fmt"
	"sort"

	"verif/sim/core"
	"verif/sim/simdb"

	"github.com/pokt-network/pocket-core/store/iavl"
)

type treeCfg struct {
	Kind    string `json:"kind"` // "tree"
	Cache   int    `json:"cache"`
	BigKeys bool   `json:"big_keys"`
	Steps   int    `json:"n"`
}

type treeStep struct {
	Op     string       `json:"op"`
	K      string       `json:"k,omitempty"`
	V      string       `json:"v,omitempty"`
	Ver    int64        `json:"ver,omitempty"`
	Cache  int          `json:"cache,omitempty"`
	Ranges [][2]*string `json:"ranges,omitempty"`
	Absent []string     `json:"absent,omitempty"`
}

type treeSim struct {
	prop   string
	res    *core.Result
	db     *simdb.DB
	tree   *iavl.MutableTree
	twinDB *simdb.DB
	twin   *iavl.MutableTree
	work   map[string][]byte
	vers   map[int64]map[string][]byte
	hashes map[int64][]byte
	latest int64
	stepNo int
	cfg    treeCfg
}

func copyMap(m map[string][]byte) map[string][]byte {
	c := make(map[string][]byte, len(m))
	for k, v := range m {
		c[k] = v
	}
	return c
}

func (s *treeSim) violate(oracle, subject, detail string) {
	s.res.Violate(s.prop, oracle, subject, detail, s.stepNo)
}

// compareTree checks every read path of t against model m.
func (s *treeSim) compareTree(label string, t *iavl.ImmutableTree, m map[string][]byte, st *treeStep, blame string) {
	v := func(oracle, detail string) {
		s.res.Violate(blame, oracle, label, detail, s.stepNo)
	}
	sorted := sortedPairs(m)
	if t.Size() != int64(len(sorted)) {
		v("size", fmt.Sprintf("Size()=%d model=%d", t.Size(), len(sorted)))
	}
	for i, p := range sorted {
		idx, val := t.Get(p.k)
		if val == nil || !bytes.Equal(val, p.v) || idx != int64(i) {
			v("get", fmt.Sprintf("Get(%x) = (%d,%x) want (%d,%x)", p.k, idx, val, i, p.v))
			break
		}
		if !t.Has(p.k) {
			v("has", fmt.Sprintf("Has(%x)=false for a present key", p.k))
			break
		}
		k2, v2 := t.GetByIndex(int64(i))
		if !bytes.Equal(k2, p.k) || !bytes.Equal(v2, p.v) {
			v("get-by-index", fmt.Sprintf("GetByIndex(%d) = (%x,%x) want (%x,%x)", i, k2, v2, p.k, p.v))
			break
		}
	}
	if k2, v2 := t.GetByIndex(int64(len(sorted))); k2 != nil || v2 != nil {
		v("get-by-index", fmt.Sprintf("GetByIndex(size) = (%x,%x) want nil", k2, v2))
	}
	for _, a := range st.Absent {
		k := core.UnHex(a)
		if _, ok := m[string(k)]; ok {
			continue
		}
		if _, val := t.Get(k); val != nil {
			v("get-absent", fmt.Sprintf("Get(%x) = %x for an absent key", k, val))
		}
		if t.Has(k) {
			v("has-absent", fmt.Sprintf("Has(%x)=true for an absent key", k))
		}
	}
	ranges := append([][2]*string{{nil, nil}}, st.Ranges...)
	for _, rg := range ranges {
		sb, eb := optBytes(rg[0]), optBytes(rg[1])
		for _, asc := range []bool{true, false} {
			want := rangeOf(m, sb, eb, !asc)
			var got []kvPair
			t.IterateRange(sb, eb, asc, func(k, val []byte) bool {
				got = append(got, kvPair{append([]byte{}, k...), append([]byte{}, val...)})
				return false
			})
			if !pairsEqual(got, want) {
				v("iterate-range", fmt.Sprintf("IterateRange(%x,%x,asc=%v) = %s want %s", sb, eb, asc, fmtPairs(got), fmtPairs(want)))
			}
		}
	}
	if err := iavl.VerifCheckShape(t); err != nil {
		v("shape", err.Error())
	}
}

func (s *treeSim) checkAll(st *treeStep) {
	s.compareTree("working", s.tree.ImmutableTree, s.work, st, s.prop)
	vs := make([]int64, 0, len(s.vers))
	for v := range s.vers {
		vs = append(vs, v)
	}
	sort.Slice(vs, func(i, j int) bool { return vs[i] < vs[j] })
	for _, ver := range vs {
		it, err := s.tree.GetImmutable(ver)
		if err != nil {
			s.violate("retained-version-unreadable", "saved", fmt.Sprintf("GetImmutable(%d): %v", ver, err))
			continue
		}
		s.compareTree("saved", it, s.vers[ver], st, s.prop)
		if s.prop == "C04" && !bytes.Equal(it.Hash(), s.hashes[ver]) {
			s.violate("saved-hash-changed", "saved", fmt.Sprintf("version %d hash %x, was %x when saved", ver, it.Hash(), s.hashes[ver]))
		}
		if !s.tree.VersionExists(ver) {
			s.violate("version-exists", "saved", fmt.Sprintf("VersionExists(%d)=false", ver))
		}
	}
	s.res.Case(fmt.Sprintf("check/versions=%d/size=%d", len(vs), len(s.work)))
}

func (s *treeSim) exec(st *treeStep) {
	switch st.Op {
	case "set":
		k, v := core.UnHex(st.K), core.UnHex(st.V)
		_, existed := s.work[string(k)]
		upd := s.tree.Set(k, v)
		s.twin.Set(k, v)
		if upd != existed {
			s.violate("set-updated-flag", "working", fmt.Sprintf("Set(%x) updated=%v, key existed=%v", k, upd, existed))
		}
		s.work[string(k)] = v
	case "rm":
		k := core.UnHex(st.K)
		old, existed := s.work[string(k)]
		val, removed := s.tree.Remove(k)
		s.twin.Remove(k)
		if removed != existed || (existed && !bytes.Equal(val, old)) {
			s.violate("remove-result", "working", fmt.Sprintf("Remove(%x) = (%x,%v), model had %x present=%v", k, val, removed, old, existed))
		}
		delete(s.work, string(k))
		if existed && len(s.work) == 0 {
			s.res.Probe("removed_last_key")
		}
	case "save":
		h, ver, err := s.tree.SaveVersion()
		h2, _, err2 := s.twin.SaveVersion()
		if err != nil || err2 != nil {
			s.violate("save-error", "working", fmt.Sprintf("SaveVersion: %v / %v", err, err2))
			return
		}
		if ver != s.latest+1 {
			s.violate("save-version-number", "working", fmt.Sprintf("saved version %d after %d", ver, s.latest))
		}
		if !bytes.Equal(h, h2) {
			s.res.Violate("C04", "twin-hash", "tree", fmt.Sprintf("version %d: node hash %x, twin (never reopened, large cache) %x", ver, h, h2), s.stepNo)
		}
		s.latest = ver
		s.vers[ver] = copyMap(s.work)
		s.hashes[ver] = h
		if len(s.work) == 0 {
			s.res.Probe("saved_empty_tree")
		}
	case "delver":
		if st.Ver == s.latest || s.vers[st.Ver] == nil {
			if err := s.tree.DeleteVersion(st.Ver); err == nil {
				s.violate("delete-version-accepted", "saved", fmt.Sprintf("DeleteVersion(%d) succeeded (latest=%d, exists=%v)", st.Ver, s.latest, s.vers[st.Ver] != nil))
			}
			return
		}
		if err := s.tree.DeleteVersion(st.Ver); err != nil {
			s.violate("delete-version-error", "saved", fmt.Sprintf("DeleteVersion(%d): %v", st.Ver, err))
			return
		}
		_ = s.twin.DeleteVersion(st.Ver)
		delete(s.vers, st.Ver)
		delete(s.hashes, st.Ver)
		s.res.Probe("deleted_version")
	case "reopen":
		s.res.Fault("reopen")
		t, err := iavl.NewMutableTree(s.db, st.Cache)
		if err != nil {
			panic(err)
		}
		ver, err := t.Load()
		if err != nil || ver != s.latest {
			s.violate("reopen-latest", "tree", fmt.Sprintf("Load() = %d,%v want %d", ver, err, s.latest))
		}
		if len(s.work) != len(s.vers[s.latest]) || s.latest == 0 && len(s.work) > 0 {
			s.res.Probe("reopen_discards_unsaved")
		}
		s.tree = t
		// unsaved changes die with the process; the twin is told to forget them too
		s.twin.Rollback()
		if s.latest > 0 {
			s.work = copyMap(s.vers[s.latest])
		} else {
			s.work = map[string][]byte{}
		}
		s.checkAll(st)
	case "lazy":
		m, ok := s.vers[st.Ver]
		lt, err := s.tree.LazyLoadVersion(st.Ver)
		if !ok {
			if err == nil && lt != nil && st.Ver > 0 {
				s.violate("lazy-load-missing-version", "saved", fmt.Sprintf("LazyLoadVersion(%d) succeeded for a version that is not retained", st.Ver))
			}
			return
		}
		if err != nil || lt == nil {
			s.violate("lazy-load", "saved", fmt.Sprintf("LazyLoadVersion(%d): %v", st.Ver, err))
			return
		}
		s.compareTree("lazy", lt.ImmutableTree, m, st, s.prop)
		s.res.Probe("lazy_load")
	case "check":
		s.checkAll(st)
	}
}

func (s *treeSim) genKey(r *core.Rand) []byte {
	if s.cfg.BigKeys {
		// a moderately sized space so that overwrites and removals still hit
		n := r.Intn(400)
		return []byte(fmt.Sprintf("k%03d/%x", n, n*7919))
	}
	return genKey(r, 3)
}

func (s *treeSim) existingKey(r *core.Rand) []byte {
	if len(s.work) == 0 {
		return s.genKey(r)
	}
	p := sortedPairs(s.work)
	return p[r.Intn(len(p))].k
}

func (s *treeSim) gen(r *core.Rand) *treeStep {
	w := []int{ /*set*/ 40 /*rm*/, 22 /*save*/, 10 /*delver*/, 3 /*reopen*/, 0 /*lazy*/, 4 /*check*/, 6}
	if s.prop == "C04" {
		w[4] = 5
	}
	mkCheck := func(op string) *treeStep {
		st := &treeStep{Op: op}
		for i := 0; i < 3; i++ {
			var a, b *string
			if r.Chance(0.8) {
				x := core.Hex(s.genKey(r))
				a = &x
			}
			if r.Chance(0.8) {
				x := core.Hex(s.genKey(r))
				b = &x
			}
			st.Ranges = append(st.Ranges, [2]*string{a, b})
		}
		for i := 0; i < 4; i++ {
			st.Absent = append(st.Absent, core.Hex(s.genKey(r)))
		}
		return st
	}
	switch r.Weighted(w) {
	case 0:
		k := s.genKey(r)
		if r.Chance(0.2) {
			k = s.existingKey(r)
		}
		return &treeStep{Op: "set", K: core.Hex(k), V: genVal(r, s.stepNo, 4)}
	case 1:
		k := s.existingKey(r)
		if r.Chance(0.2) {
			k = s.genKey(r)
		}
		return &treeStep{Op: "rm", K: core.Hex(k)}
	case 2:
		return &treeStep{Op: "save"}
	case 3:
		return &treeStep{Op: "delver", Ver: int64(r.Range(1, int(s.latest)+1))}
	case 4:
		st := mkCheck("reopen")
		st.Cache = []int{1, 2, 8, 10000}[r.Intn(4)]
		return st
	case 5:
		st := mkCheck("lazy")
		st.Ver = int64(r.Range(1, int(s.latest)+1))
		return st
	default:
		return mkCheck("check")
	}
}

func runTree(prop string, seed uint64, tier string, replay *core.Schedule) (*core.Schedule, *core.Result) {
	r := core.NewRand(seed)
	res := core.NewResult(seed)
	var cfg treeCfg
	if replay != nil {
		core.Dec(replay.Config, &cfg)
	} else {
		cfg = treeCfg{Kind: "tree", Cache: []int{1, 2, 8, 10000}[r.Intn(4)], BigKeys: r.Chance(0.4), Steps: r.Range(30, 300)}
	}
	s := &treeSim{prop: prop, res: res, db: simdb.New(), twinDB: simdb.New(), cfg: cfg,
		work: map[string][]byte{}, vers: map[int64]map[string][]byte{}, hashes: map[int64][]byte{}}
	var err error
	if s.tree, err = iavl.NewMutableTree(s.db, cfg.Cache); err != nil {
		panic(err)
	}
	if s.twin, err = iavl.NewMutableTree(s.twinDB, 10000); err != nil {
		panic(err)
	}
	sched := &core.Schedule{Engine: "storesim", Property: prop, Seed: seed, Tier: tier, Config: core.Enc(cfg)}
	if replay == nil && tier == "thorough" && seed%2 == 0 {
		// the thorough tier also runs long histories (the configuration records the length)
		cfg.Steps *= 3
	}
	n := cfg.Steps
	if replay != nil {
		n = len(replay.Steps)
	}
	for i := 0; i < n; i++ {
		s.stepNo = i
		st := &treeStep{}
		if replay != nil {
			core.Dec(replay.Steps[i], st)
		} else {
			st = s.gen(r)
		}
		sched.Steps = append(sched.Steps, core.Enc(st))
		ok := guard(res, prop, st.Op, i, func() { s.exec(st) })
		res.Logf("%d %s v=%d", i, string(sched.Steps[i]), len(res.Violations))
		if !ok {
			break
		}
	}
	s.stepNo = n
	s.checkAll(&treeStep{Op: "check"})
	res.Steps = n
	res.SchedFP = core.FP(fmt.Sprint(cfg))
	res.Finish()
	return sched, res
}
