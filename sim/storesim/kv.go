package storesim

// C01 (cache-wrapped store is an exact overlay of its parent) and C02 (prefix views).
//
// A stack of real stores: base (dbadapter over simdb, or an iavl.Store with committed and
// uncommitted data) with cachekv and prefix layers pushed on top. Operations go to the top
// layer. The oracle is *parent relative*: what the top layer shows must equal what its real
// parent shows right now, overlaid with the model's pending writes (cache layer) or filtered and
// stripped (prefix layer). So a defect in the base or in a lower layer is not blamed on the layer
// under test. Iterators may be held open across later operations on the same layer; they must
// deliver the overlay as of their creation.

import (
	"bytes"
	"fmt"
	"sort"

	"verif/sim/core"
	"verif/sim/simdb"

	"github.com/pokt-network/pocket-core/store/cachekv"
	"github.com/pokt-network/pocket-core/store/dbadapter"
	"github.com/pokt-network/pocket-core/store/iavl"
	"github.com/pokt-network/pocket-core/store/prefix"
	"github.com/pokt-network/pocket-core/store/rootmulti/heightcache"
	"github.com/pokt-network/pocket-core/store/types"
)

type kvCfg struct {
	Base      string `json:"base"` // "db" | "iavl"
	IavlCache int    `json:"iavl_cache"`
	Steps     int    `json:"n"`
}

type kvStep struct {
	Op   string  `json:"op"`
	Kind string  `json:"kind,omitempty"` // push: cache|prefix
	K    string  `json:"k,omitempty"`    // hex
	V    string  `json:"v,omitempty"`    // hex
	S    *string `json:"s,omitempty"`    // hex start (nil = unbounded)
	E    *string `json:"e,omitempty"`
	Rev  bool    `json:"rev,omitempty"`
	Hold bool    `json:"hold,omitempty"`
	ID   int     `json:"id,omitempty"`
	N    int     `json:"n,omitempty"`
	Cap  int     `json:"cap,omitempty"` // push prefix: spare capacity of the prefix slice handed to the store
}

type kvPair struct{ k, v []byte }

type kvLayer struct {
	kind    string
	store   types.KVStore
	pending map[string]*[]byte
	prefix  []byte
}

type heldIter struct {
	id     int
	layer  int
	it     types.Iterator
	expect []kvPair
	pos    int
	step   int
}

type kvSim struct {
	prop       string
	res        *core.Result
	db         *simdb.DB
	layers     []*kvLayer
	held       []*heldIter
	nextID     int
	stepNo     int
	commitBase func()
}

var alphabet = []byte{0x00, 0x01, 0x7f, 0xfe, 0xff}

func genKey(r *core.Rand, maxLen int) []byte {
	n := r.Range(1, maxLen)
	b := make([]byte, n)
	for i := range b {
		b[i] = alphabet[r.Intn(len(alphabet))]
	}
	return b
}

func genBound(r *core.Rand) *string {
	if r.Chance(0.25) {
		return nil
	}
	if r.Chance(0.06) {
		e := "" // an empty bound that is not nil: as an end bound it admits no key
		return &e
	}
	s := core.Hex(genKey(r, 3))
	return &s
}

func readAll(s types.KVStore) []kvPair {
	it, _ := s.Iterator(nil, nil)
	var out []kvPair
	for ; it.Valid(); it.Next() {
		out = append(out, kvPair{append([]byte{}, it.Key()...), append([]byte{}, it.Value()...)})
	}
	it.Close()
	return out
}

func toMap(p []kvPair) map[string][]byte {
	m := map[string][]byte{}
	for _, x := range p {
		m[string(x.k)] = x.v
	}
	return m
}

func sortedPairs(m map[string][]byte) []kvPair {
	keys := make([]string, 0, len(m))
	for k := range m {
		keys = append(keys, k)
	}
	sort.Strings(keys)
	out := make([]kvPair, 0, len(keys))
	for _, k := range keys {
		out = append(out, kvPair{[]byte(k), m[k]})
	}
	return out
}

func inDomain(k, s, e []byte) bool {
	if s != nil && bytes.Compare(k, s) < 0 {
		return false
	}
	if e != nil && bytes.Compare(k, e) >= 0 {
		return false
	}
	return true
}

func rangeOf(m map[string][]byte, s, e []byte, rev bool) []kvPair {
	all := sortedPairs(m)
	var out []kvPair
	for _, p := range all {
		if inDomain(p.k, s, e) {
			out = append(out, p)
		}
	}
	if rev {
		for i, j := 0, len(out)-1; i < j; i, j = i+1, j-1 {
			out[i], out[j] = out[j], out[i]
		}
	}
	return out
}

// expectedView is what layer i must show, derived from its real parent.
func (s *kvSim) expectedView(i int) map[string][]byte {
	l := s.layers[i]
	switch l.kind {
	case "base":
		return toMap(readAll(l.store)) // the base is not under test here
	case "cache":
		m := toMap(readAll(s.layers[i-1].store))
		for k, p := range l.pending {
			if p == nil {
				delete(m, k)
			} else {
				m[k] = *p
			}
		}
		return m
	case "prefix":
		m := map[string][]byte{}
		for _, p := range readAll(s.layers[i-1].store) {
			if bytes.HasPrefix(p.k, l.prefix) {
				m[string(p.k[len(l.prefix):])] = p.v
			}
		}
		return m
	}
	panic("kind")
}

// modelWrite records in the model a write that arrives at layer i (from above or directly).
func (s *kvSim) modelWrite(i int, k []byte, v *[]byte) {
	l := s.layers[i]
	switch l.kind {
	case "cache":
		if p, ok := l.pending[string(k)]; ok && p == nil && v != nil {
			s.res.Probe("delete_then_reset")
		}
		l.pending[string(k)] = v
	case "prefix":
		s.modelWrite(i-1, append(append([]byte{}, l.prefix...), k...), v)
	}
}

func (s *kvSim) top() *kvLayer { return s.layers[len(s.layers)-1] }

func (s *kvSim) violate(oracle, subject, detail string) {
	s.res.Violate(s.prop, oracle, subject, detail, s.stepNo)
}

func fmtPairs(p []kvPair) string {
	out := ""
	for i, x := range p {
		if i > 12 {
			out += " …"
			break
		}
		out += fmt.Sprintf(" %x=%x", x.k, x.v)
	}
	return "[" + out + " ]"
}

func pairsEqual(a, b []kvPair) bool {
	if len(a) != len(b) {
		return false
	}
	for i := range a {
		if !bytes.Equal(a[i].k, b[i].k) || !bytes.Equal(a[i].v, b[i].v) {
			return false
		}
	}
	return true
}

// genVal draws a value (hex): unique per step so that a read is attributable to one write, except
// that one write in sixteen stores the empty value (the application stores empty values under its
// index keys, and "present with an empty value" is not "absent").
func genVal(r *core.Rand, stepNo, extra int) string {
	if r.Intn(16) == 0 {
		return ""
	}
	return core.Hex(append([]byte{byte(stepNo), byte(stepNo >> 8)}, r.Bytes(r.Intn(extra))...))
}

func optBytes(h *string) []byte {
	if h == nil {
		return nil
	}
	return core.UnHex(*h)
}

func (s *kvSim) closeHeldOn(layer int) {
	var keep []*heldIter
	for _, h := range s.held {
		if h.layer >= layer {
			s.drain(h, 1<<30)
			h.it.Close()
		} else {
			keep = append(keep, h)
		}
	}
	s.held = keep
}

// drain consumes up to n entries of a held iterator and compares with its creation-time snapshot.
func (s *kvSim) drain(h *heldIter, n int) {
	kind := s.layers[h.layer].kind
	for c := 0; c < n; c++ {
		valid := h.it.Valid()
		if h.pos >= len(h.expect) {
			if valid {
				s.violate("held-iterator-extra", kind, fmt.Sprintf("iterator opened at step %d yields %x beyond its snapshot %s", h.step, h.it.Key(), fmtPairs(h.expect)))
			}
			return
		}
		if !valid {
			s.violate("held-iterator-short", kind, fmt.Sprintf("iterator opened at step %d ended after %d of %d entries %s", h.step, h.pos, len(h.expect), fmtPairs(h.expect)))
			h.pos = len(h.expect)
			return
		}
		k, v := h.it.Key(), h.it.Value()
		e := h.expect[h.pos]
		if !bytes.Equal(k, e.k) || !bytes.Equal(v, e.v) {
			s.violate("held-iterator-mismatch", kind, fmt.Sprintf("iterator opened at step %d entry %d: got %x=%x want %x=%x", h.step, h.pos, k, v, e.k, e.v))
			h.pos = len(h.expect)
			return
		}
		h.pos++
		h.it.Next()
	}
}

func (s *kvSim) exec(st kvStep) {
	top := s.top()
	ti := len(s.layers) - 1
	switch st.Op {
	case "push":
		var l *kvLayer
		if st.Kind == "cache" {
			l = &kvLayer{kind: "cache", store: cachekv.NewStore(top.store), pending: map[string]*[]byte{}}
		} else {
			p := core.UnHex(st.K)
			// the slice the store receives may have room behind its length (callers build prefixes
			// with append); the model keeps its own copy
			handed := append(make([]byte, 0, len(p)+st.Cap), p...)
			l = &kvLayer{kind: "prefix", store: prefix.NewStore(top.store, handed), prefix: p}
			if st.Cap > 0 {
				s.res.Probe("prefix_slice_with_spare_capacity")
			}
			if len(p) > 0 && p[len(p)-1] == 0xff {
				s.res.Probe("prefix_ends_ff")
			}
		}
		s.layers = append(s.layers, l)
		if len(s.layers) > 3 {
			s.res.Probe("nesting>=3")
		}
	case "set", "del":
		k := core.UnHex(st.K)
		var before []kvPair
		// a write that reaches the base mutates it under any open iterator that reads it; with an
		// IAVL base that is a real goroutine race the property does not speak about: close them.
		tgt := ti
		for tgt > 0 && s.layers[tgt].kind == "prefix" {
			tgt--
		}
		if tgt == 0 {
			s.closeHeldOn(0)
		}
		if ti > 0 {
			before = readAll(s.layers[ti-1].store)
		}
		if st.Op == "set" {
			v := core.UnHex(st.V)
			_ = top.store.Set(k, v)
			s.modelWrite(ti, k, &v)
		} else {
			_ = top.store.Delete(k)
			s.modelWrite(ti, k, nil)
		}
		for _, h := range s.held {
			if h.layer == ti && h.pos < len(h.expect) {
				s.res.Probe("write_under_open_iterator")
				break
			}
		}
		if ti > 0 {
			after := readAll(s.layers[ti-1].store)
			switch top.kind {
			case "cache":
				if !pairsEqual(before, after) {
					s.violate("cache-leaks-before-write", st.Op, fmt.Sprintf("parent changed by %s %x on the cache: %s -> %s", st.Op, k, fmtPairs(before), fmtPairs(after)))
				}
			case "prefix":
				want := toMap(before)
				full := append(append([]byte{}, top.prefix...), k...)
				if st.Op == "set" {
					want[string(full)] = core.UnHex(st.V)
				} else {
					delete(want, string(full))
				}
				if !pairsEqual(sortedPairs(want), after) {
					s.violate("prefix-write-target", st.Op, fmt.Sprintf("prefix %x %s %x: parent %s -> %s", top.prefix, st.Op, k, fmtPairs(before), fmtPairs(after)))
				}
			}
		}
	case "get", "has":
		k := core.UnHex(st.K)
		want, ok := s.expectedView(ti)[string(k)]
		if st.Op == "get" {
			got, _ := top.store.Get(k)
			if ok != (got != nil) || (ok && !bytes.Equal(got, want)) {
				s.violate("get", top.kind, fmt.Sprintf("get %x: got %x (nil=%v) want %x (present=%v)", k, got, got == nil, want, ok))
			}
		} else {
			got, _ := top.store.Has(k)
			if got != ok {
				s.violate("has", top.kind, fmt.Sprintf("has %x: got %v want %v", k, got, ok))
			}
		}
		if !ok {
			s.res.Probe("read_absent")
		}
	case "iter":
		sb, eb := optBytes(st.S), optBytes(st.E)
		want := rangeOf(s.expectedView(ti), sb, eb, st.Rev)
		var it types.Iterator
		if st.Rev {
			it, _ = top.store.ReverseIterator(sb, eb)
		} else {
			it, _ = top.store.Iterator(sb, eb)
		}
		if top.kind == "cache" {
			for _, p := range top.pending {
				if p == nil {
					s.res.Probe("range_with_pending_deletes")
					break
				}
			}
		}
		if st.Rev {
			s.res.Probe("reverse_range")
		}
		h := &heldIter{id: s.nextID, layer: ti, it: it, expect: want, step: s.stepNo}
		s.nextID++
		if st.Hold {
			s.held = append(s.held, h)
			s.res.Probe("iterator_held_open")
		} else {
			s.drain(h, 1<<30)
			it.Close()
		}
		s.res.Case(fmt.Sprintf("%s/iter/rev=%v/n=%d/depth=%d", top.kind, st.Rev, len(want), ti))
	case "next":
		for _, h := range s.held {
			if h.id == st.ID {
				s.drain(h, st.N)
			}
		}
	case "close":
		var keep []*heldIter
		for _, h := range s.held {
			if h.id == st.ID {
				s.drain(h, 1<<30)
				h.it.Close()
			} else {
				keep = append(keep, h)
			}
		}
		s.held = keep
	case "write":
		if top.kind != "cache" {
			return
		}
		s.closeHeldOn(ti - 1) // the parent is about to change under any iterator that reads it
		before := toMap(readAll(s.layers[ti-1].store))
		for k, p := range top.pending {
			if p == nil {
				delete(before, k)
			} else {
				before[k] = *p
			}
		}
		top.store.(types.CacheKVStore).Write()
		for k, p := range top.pending {
			s.modelWrite(ti-1, []byte(k), p)
		}
		after := readAll(s.layers[ti-1].store)
		if !pairsEqual(sortedPairs(before), after) {
			s.violate("write-net-changes", "cache", fmt.Sprintf("after Write parent is %s, want %s", fmtPairs(after), fmtPairs(sortedPairs(before))))
		}
		if len(top.pending) > 0 {
			s.res.Probe("write_through")
			if ti > 1 {
				s.res.Probe("nested_write_through")
			}
		}
		top.pending = map[string]*[]byte{}
	case "discard":
		if ti == 0 {
			return
		}
		s.closeHeldOn(ti)
		before := readAll(s.layers[ti-1].store)
		s.layers = s.layers[:ti]
		after := readAll(s.layers[ti-1].store)
		if !pairsEqual(before, after) {
			s.violate("discard-touches-parent", top.kind, fmt.Sprintf("parent %s -> %s", fmtPairs(before), fmtPairs(after)))
		}
		if top.kind == "cache" && len(top.pending) > 0 {
			s.res.Probe("discard_with_pending")
		}
	case "commit":
		if ti == 0 && s.commitBase != nil {
			s.closeHeldOn(0)
			s.commitBase()
		}
	}
}

func (s *kvSim) gen(r *core.Rand) kvStep {
	ti := len(s.layers) - 1
	top := s.top()
	w := []int{ /*push*/ 6 /*set*/, 26 /*del*/, 12 /*get*/, 12 /*has*/, 6 /*iter*/, 18 /*next*/, 6 /*close*/, 4 /*write*/, 5 /*discard*/, 3 /*commit*/, 2}
	if ti >= 4 {
		w[0] = 0
	}
	if len(s.held) == 0 {
		w[6], w[7] = 0, 0
	}
	if top.kind != "cache" {
		w[8] = 0
	}
	if ti == 0 {
		w[9] = 0
		w[0] = 30
	} else {
		w[10] = 0
	}
	switch r.Weighted(w) {
	case 0:
		kind := "cache"
		if s.prop == "C02" {
			if r.Chance(0.6) || ti == 0 {
				kind = "prefix"
			}
		} else if r.Chance(0.15) {
			kind = "prefix"
		}
		if kind == "prefix" {
			var p []byte
			switch r.Intn(5) {
			case 0:
				p = []byte{}
			case 1:
				p = []byte{0xff}
			case 2:
				p = []byte{0xff, 0xff}
			default:
				p = genKey(r, 2)
			}
			return kvStep{Op: "push", Kind: "prefix", K: core.Hex(p), Cap: []int{0, 0, 1, 4, 16}[r.Intn(5)]}
		}
		return kvStep{Op: "push", Kind: "cache"}
	case 1:
		return kvStep{Op: "set", K: core.Hex(genKey(r, 3)), V: genVal(r, s.stepNo, 3)}
	case 2:
		return kvStep{Op: "del", K: core.Hex(genKey(r, 3))}
	case 3:
		return kvStep{Op: "get", K: core.Hex(genKey(r, 3))}
	case 4:
		return kvStep{Op: "has", K: core.Hex(genKey(r, 3))}
	case 5:
		return kvStep{Op: "iter", S: genBound(r), E: genBound(r), Rev: r.Chance(0.5), Hold: r.Chance(0.35)}
	case 6:
		return kvStep{Op: "next", ID: s.held[r.Intn(len(s.held))].id, N: r.Range(1, 3)}
	case 7:
		return kvStep{Op: "close", ID: s.held[r.Intn(len(s.held))].id}
	case 8:
		return kvStep{Op: "write"}
	case 9:
		return kvStep{Op: "discard"}
	default:
		return kvStep{Op: "commit"}
	}
}

func runKV(prop string, seed uint64, tier string, replay *core.Schedule) (*core.Schedule, *core.Result) {
	r := core.NewRand(seed)
	res := core.NewResult(seed)
	var cfg kvCfg
	if replay != nil {
		core.Dec(replay.Config, &cfg)
	} else {
		cfg = kvCfg{Base: []string{"db", "iavl"}[r.Intn(2)], IavlCache: []int{1, 2, 8, 10000}[r.Intn(4)], Steps: r.Range(20, 160)}
	}
	s := &kvSim{prop: prop, res: res, db: simdb.New()}
	switch cfg.Base {
	case "db":
		s.layers = []*kvLayer{{kind: "base", store: dbadapter.Store{DB: s.db}}}
	default:
		cs, err := iavl.LoadStore(s.db, types.CommitID{}, types.PruneNothing, false, heightcache.InvalidCache{}, int64(cfg.IavlCache))
		if err != nil {
			panic(err)
		}
		st := cs.(*iavl.Store)
		s.layers = []*kvLayer{{kind: "base", store: st}}
		s.commitBase = func() { st.Commit(); res.Probe("iavl_base_commit") }
	}
	sched := &core.Schedule{Engine: "storesim", Property: prop, Seed: seed, Tier: tier, Config: core.Enc(cfg)}
	if replay == nil && tier == "thorough" && seed%2 == 0 {
		// the thorough tier also runs long histories (the configuration records the length)
		cfg.Steps *= 3
	}
	n := cfg.Steps
	if replay != nil {
		n = len(replay.Steps)
	}
	for i := 0; i < n; i++ {
		s.stepNo = i
		var st kvStep
		if replay != nil {
			core.Dec(replay.Steps[i], &st)
		} else {
			st = s.gen(r)
		}
		sched.Steps = append(sched.Steps, core.Enc(st))
		ok := guard(res, prop, st.Op, i, func() { s.exec(st) })
		res.Logf("%d %s v=%d", i, string(sched.Steps[i]), len(res.Violations))
		if !ok {
			break
		}
	}
	s.closeHeldOn(0)
	res.Steps = n
	res.SchedFP = core.FP(fmt.Sprint(cfg), fmt.Sprint(len(sched.Steps)))
	res.Finish()
	return sched, res
}
