// Package simdb is the simulated disk: a tm-db DB over a copy-on-write btree.
//
//   - iterators are snapshots taken at creation (what LevelDB gives), run no goroutine and hold
//     no lock, so a write under an open iterator is well defined and deterministic;
//   - every completed write is one "unit" (a single Set/Delete, or one atomic Batch.Write);
//     with logging on, units are appended to a log from which crash images are rebuilt;
//   - Snapshot() is O(1) (btree.Clone), which makes a history book of every committed height
//     and thousands of crash images affordable.
//
// Process-crash model: a unit whose call returned is durable; a crash happens between units.
package simdb

import (
	"bytes"
	"fmt"
	"sort"
	"sync"

	"github.com/google/btree"
	dbm "github.com/tendermint/tm-db"
)

type item struct {
	k, v []byte
}

func (a *item) Less(b btree.Item) bool { return bytes.Compare(a.k, b.(*item).k) < 0 }

// Op is one key mutation inside a unit.
type Op struct {
	Del bool
	K   []byte
	V   []byte
}

// Unit is one atomic durable write.
type Unit struct {
	Ops   []Op
	Batch bool
}

type DB struct {
	mu      sync.Mutex
	t       *btree.BTree
	Logging bool
	Log     []Unit
	// counters (never influence behaviour)
	NWrites, NBatches, NReads, NIters int64
	// FailWrites, when >0, makes the n-th following batch write return an error and apply nothing
	// (probe only; the repository ignores these errors).
	FailWrites int
}

var _ dbm.DB = (*DB)(nil)

func New() *DB { return &DB{t: btree.New(16)} }

// Snapshot returns an independent DB with the same contents (lazy copy-on-write).
func (d *DB) Snapshot() *DB {
	d.mu.Lock()
	defer d.mu.Unlock()
	return &DB{t: d.t.Clone()}
}

func cp(b []byte) []byte {
	if b == nil {
		return nil
	}
	c := make([]byte, len(b))
	copy(c, b)
	return c
}

func nn(b []byte) []byte {
	if b == nil {
		return []byte{}
	}
	return b
}

func (d *DB) Get(key []byte) ([]byte, error) {
	d.mu.Lock()
	defer d.mu.Unlock()
	d.NReads++
	i := d.t.Get(&item{k: nn(key)})
	if i == nil {
		return nil, nil
	}
	return cp(i.(*item).v), nil
}

func (d *DB) Has(key []byte) (bool, error) {
	d.mu.Lock()
	defer d.mu.Unlock()
	d.NReads++
	return d.t.Has(&item{k: nn(key)}), nil
}

func (d *DB) apply(u Unit) {
	for _, o := range u.Ops {
		if o.Del {
			d.t.Delete(&item{k: o.K})
		} else {
			d.t.ReplaceOrInsert(&item{k: o.K, v: o.V})
		}
	}
	d.NWrites += int64(len(u.Ops))
	if d.Logging {
		d.Log = append(d.Log, u)
	}
}

// ApplyUnit applies a logged unit to this DB (used to rebuild crash images).
func (d *DB) ApplyUnit(u Unit) {
	d.mu.Lock()
	defer d.mu.Unlock()
	lg := d.Logging
	d.Logging = false
	d.apply(u)
	d.Logging = lg
}

func (d *DB) Set(key, value []byte) error {
	d.mu.Lock()
	defer d.mu.Unlock()
	d.apply(Unit{Ops: []Op{{K: cp(nn(key)), V: cp(nn(value))}}})
	return nil
}
func (d *DB) SetSync(key, value []byte) error { return d.Set(key, value) }
func (d *DB) Delete(key []byte) error {
	d.mu.Lock()
	defer d.mu.Unlock()
	d.apply(Unit{Ops: []Op{{Del: true, K: cp(nn(key))}}})
	return nil
}
func (d *DB) DeleteSync(key []byte) error { return d.Delete(key) }
func (d *DB) Close() error                { return nil }
func (d *DB) Print() error                { return nil }
func (d *DB) Stats() map[string]string {
	return map[string]string{"database.type": "simdb", "database.size": fmt.Sprint(d.Len())}
}
func (d *DB) Len() int {
	d.mu.Lock()
	defer d.mu.Unlock()
	return d.t.Len()
}

// TakeLog returns and clears the unit log.
func (d *DB) TakeLog() []Unit {
	d.mu.Lock()
	defer d.mu.Unlock()
	l := d.Log
	d.Log = nil
	return l
}

// Ascend calls fn for every pair in order (harness use; no copy).
func (d *DB) Ascend(fn func(k, v []byte) bool) {
	d.mu.Lock()
	t := d.t.Clone()
	d.mu.Unlock()
	t.Ascend(func(i btree.Item) bool { it := i.(*item); return fn(it.k, it.v) })
}

// Equal reports whether two DBs hold the same pairs; if not, diff describes the first difference.
func Equal(a, b *DB) (bool, string) {
	var ka, kb []*item
	a.Ascend(func(k, v []byte) bool { ka = append(ka, &item{k, v}); return true })
	b.Ascend(func(k, v []byte) bool { kb = append(kb, &item{k, v}); return true })
	for i := 0; i < len(ka) && i < len(kb); i++ {
		if !bytes.Equal(ka[i].k, kb[i].k) {
			return false, fmt.Sprintf("key #%d differs: %x vs %x", i, ka[i].k, kb[i].k)
		}
		if !bytes.Equal(ka[i].v, kb[i].v) {
			return false, fmt.Sprintf("value of %x differs", ka[i].k)
		}
	}
	if len(ka) != len(kb) {
		return false, fmt.Sprintf("sizes differ: %d vs %d", len(ka), len(kb))
	}
	return true, ""
}

// FlipByte xors one byte of the value stored under the n-th key (mod size) — stored-byte fault.
func (d *DB) FlipByte(n, off int, mask byte) (key []byte, ok bool) {
	d.mu.Lock()
	defer d.mu.Unlock()
	if d.t.Len() == 0 {
		return nil, false
	}
	n = n % d.t.Len()
	var target *item
	idx := 0
	d.t.Ascend(func(i btree.Item) bool {
		if idx == n {
			target = i.(*item)
			return false
		}
		idx++
		return true
	})
	if target == nil || len(target.v) == 0 {
		return nil, false
	}
	v := cp(target.v)
	v[off%len(v)] ^= mask
	d.t.ReplaceOrInsert(&item{k: target.k, v: v})
	return target.k, true
}

// ---- batch

type batch struct {
	d   *DB
	ops []Op
}

func (d *DB) NewBatch() dbm.Batch { return &batch{d: d} }
func (b *batch) Set(k, v []byte)  { b.ops = append(b.ops, Op{K: cp(nn(k)), V: cp(nn(v))}) }
func (b *batch) Delete(k []byte)  { b.ops = append(b.ops, Op{Del: true, K: cp(nn(k))}) }
func (b *batch) Write() error {
	b.d.mu.Lock()
	defer b.d.mu.Unlock()
	if b.d.FailWrites > 0 {
		b.d.FailWrites--
		if b.d.FailWrites == 0 {
			return fmt.Errorf("simdb: injected write error")
		}
	}
	b.d.NBatches++
	b.d.apply(Unit{Ops: b.ops, Batch: true})
	b.ops = nil
	return nil
}
func (b *batch) WriteSync() error { return b.Write() }
func (b *batch) Close()           {}

// ---- iterator (eager snapshot of the range)

type iter struct {
	start, end []byte
	items      []*item
	pos        int
}

func (d *DB) Iterator(start, end []byte) (dbm.Iterator, error) {
	return d.iterator(start, end, false), nil
}
func (d *DB) ReverseIterator(start, end []byte) (dbm.Iterator, error) {
	return d.iterator(start, end, true), nil
}

func (d *DB) iterator(start, end []byte, rev bool) *iter {
	d.mu.Lock()
	d.NIters++
	t := d.t.Clone()
	d.mu.Unlock()
	it := &iter{start: start, end: end}
	visit := func(i btree.Item) bool { it.items = append(it.items, i.(*item)); return true }
	switch {
	case start == nil && end == nil:
		t.Ascend(visit)
	case end == nil:
		t.AscendGreaterOrEqual(&item{k: start}, visit)
	case start == nil:
		t.AscendLessThan(&item{k: end}, visit)
	default:
		t.AscendRange(&item{k: start}, &item{k: end}, visit)
	}
	if rev {
		sort.SliceStable(it.items, func(i, j int) bool { return bytes.Compare(it.items[i].k, it.items[j].k) > 0 })
	}
	return it
}

func (i *iter) Domain() ([]byte, []byte) { return i.start, i.end }
func (i *iter) Valid() bool              { return i.pos < len(i.items) }
func (i *iter) Next() {
	if !i.Valid() {
		panic("simdb: Next on invalid iterator")
	}
	i.pos++
}
func (i *iter) Key() []byte {
	if !i.Valid() {
		panic("simdb: Key on invalid iterator")
	}
	return cp(i.items[i.pos].k)
}
func (i *iter) Value() []byte {
	if !i.Valid() {
		panic("simdb: Value on invalid iterator")
	}
	return cp(i.items[i.pos].v)
}
func (i *iter) Error() error { return nil }
func (i *iter) Close()       { i.items = nil; i.pos = 0 }
