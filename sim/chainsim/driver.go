package chainsim

// The Tendermint stand-in: builds real blocks, stores them in a real BlockStore before
// execution (the order the fork's finalizeCommit uses), calls BeginBlock/DeliverTx/EndBlock/
// Commit, indexes the results (SyncTxIndexer order) and keeps the validator-set bookkeeping with
// Tendermint's H+2 delay. Blocks are recorded in a chain log that replicas re-execute.

import (
	"bytes"
	"context"
	"crypto/sha256"
	"fmt"
	"runtime"
	"sort"
	"strings"
	"time"

	sdk "github.com/pokt-network/pocket-core/types"
	abci "github.com/tendermint/tendermint/abci/types"
	tmbytes "github.com/tendermint/tendermint/libs/bytes"
	"github.com/tendermint/tendermint/rpc/client"
	ctypes "github.com/tendermint/tendermint/rpc/core/types"
	"github.com/tendermint/tendermint/state/txindex"
	tmtypes "github.com/tendermint/tendermint/types"
)

// BlockSpec is one entry of the chain log: everything a node needs to execute the block.
type BlockSpec struct {
	Height    int64
	Time      time.Time
	Proposer  []byte
	Votes     []abci.VoteInfo
	Evidence  []abci.Evidence
	Txs       [][]byte
	LastBlock tmtypes.BlockID
	PrevApp   []byte // app hash of the previous block (goes into the header)
	Block     *tmtypes.Block
	Hash      []byte
}

// BlockResult is what the application answered.
type BlockResult struct {
	Begin   abci.ResponseBeginBlock
	Txs     []abci.ResponseDeliverTx
	End     abci.ResponseEndBlock
	AppHash []byte
}

// Digest renders the consensus-relevant part of the result (codes, codespaces, data, validator
// updates, app hash) for replica comparison.
func (r *BlockResult) Digest() string {
	var b bytes.Buffer
	for i, t := range r.Txs {
		fmt.Fprintf(&b, "tx%d:%d/%s/%x;", i, t.Code, t.Codespace, t.Data)
	}
	ups := append([]abci.ValidatorUpdate{}, r.End.ValidatorUpdates...)
	sort.Slice(ups, func(i, j int) bool { return bytes.Compare(ups[i].PubKey.Data, ups[j].PubKey.Data) < 0 })
	for _, u := range ups {
		fmt.Fprintf(&b, "val:%x=%d;", u.PubKey.Data, u.Power)
	}
	fmt.Fprintf(&b, "app:%x", r.AppHash)
	return b.String()
}

// ValSet is the consensus validator set as Tendermint tracks it.
type ValSet map[string]ValEntry // key: hex pubkey bytes

type ValEntry struct {
	PubKey []byte
	Addr   []byte
	Power  int64
}

func (v ValSet) Clone() ValSet {
	c := ValSet{}
	for k, e := range v {
		c[k] = e
	}
	return c
}

func (v ValSet) Apply(ups []abci.ValidatorUpdate) {
	for _, u := range ups {
		k := fmt.Sprintf("%x", u.PubKey.Data)
		if u.Power == 0 {
			delete(v, k)
			continue
		}
		pk, err := tmtypes.PB2TM.PubKey(u.PubKey)
		if err != nil {
			panic(err)
		}
		v[k] = ValEntry{PubKey: u.PubKey.Data, Addr: pk.Address(), Power: u.Power}
	}
}

func (v ValSet) Sorted() []ValEntry {
	out := make([]ValEntry, 0, len(v))
	for _, e := range v {
		out = append(out, e)
	}
	sort.Slice(out, func(i, j int) bool { return bytes.Compare(out[i].Addr, out[j].Addr) < 0 })
	return out
}

func (v ValSet) Total() int64 {
	t := int64(0)
	for _, e := range v {
		t += e.Power
	}
	return t
}

// Driver owns chain-level state that is not the application's.
type Driver struct {
	Height    int64
	Time      time.Time
	LastBlock tmtypes.BlockID
	AppHash   []byte
	// Cumulative is the set obtained by applying every reported update in order (what C22 judges).
	Cumulative ValSet
	// sets[h] is the set that signs block h (Tendermint: updates of block h take effect at h+2).
	sets map[int64]ValSet
	Log  []*BlockSpec
	// Published[hashhex] = height of the block whose hash it is (block hashes become public when
	// the block is proposed)
	Published map[string]int64
}

func NewDriver() *Driver {
	return &Driver{Time: genesisTime, Cumulative: ValSet{}, sets: map[int64]ValSet{}, Published: map[string]int64{}}
}

// InitChain records the genesis validator set.
func (d *Driver) InitChain(res abci.ResponseInitChain) {
	d.Cumulative.Apply(res.Validators)
	d.sets[1] = d.Cumulative.Clone()
	d.sets[2] = d.Cumulative.Clone()
}

// SignersOf returns the set whose votes block h's LastCommitInfo carries (the signers of h-1).
func (d *Driver) SignersOf(h int64) ValSet {
	if s, ok := d.sets[h-1]; ok {
		return s
	}
	return ValSet{}
}

func (d *Driver) ProposerSet(h int64) ValSet {
	if s, ok := d.sets[h]; ok {
		return s
	}
	return d.sets[h-1]
}

// MakeBlock builds the next block of the chain from the given parts.
func (d *Driver) MakeBlock(t time.Time, proposer []byte, votes []abci.VoteInfo, evidence []abci.Evidence, txs [][]byte) *BlockSpec {
	h := d.Height + 1
	ttxs := make([]tmtypes.Tx, len(txs))
	for i, tx := range txs {
		ttxs[i] = tmtypes.Tx(tx)
	}
	lastCommit := tmtypes.NewCommit(d.LastBlock, nil)
	block := tmtypes.MakeBlock(h, ttxs, lastCommit, nil)
	block.ChainID = ChainID
	block.Time = t
	block.LastBlockID = d.LastBlock
	block.ProposerAddress = proposer
	block.AppHash = d.AppHash
	vh := sha256.Sum256([]byte(fmt.Sprintf("valset/%d", h)))
	block.ValidatorsHash = vh[:]
	block.NextValidatorsHash = vh[:]
	ch := sha256.Sum256([]byte("consensus-params"))
	block.ConsensusHash = ch[:]
	// bind the votes and evidence into the block identity (they are chain data)
	eh := sha256.New()
	for _, v := range votes {
		fmt.Fprintf(eh, "%x/%d/%v;", v.Validator.Address, v.Validator.Power, v.SignedLastBlock)
	}
	for _, e := range evidence {
		fmt.Fprintf(eh, "ev/%x/%d/%d;", e.Validator.Address, e.Height, e.Validator.Power)
	}
	block.EvidenceHash = eh.Sum(nil)
	spec := &BlockSpec{Height: h, Time: t, Proposer: proposer, Votes: votes, Evidence: evidence, Txs: txs, LastBlock: d.LastBlock, PrevApp: d.AppHash, Block: block}
	spec.Hash = block.Hash()
	d.Published[fmt.Sprintf("%x", spec.Hash)] = h
	return spec
}

// Phase callbacks let the engine observe and interfere at ABCI boundaries.
type Phases struct {
	BeforeBegin func()
	AfterBegin  func(abci.ResponseBeginBlock)
	BeforeTx    func(i int, tx []byte)
	AfterTx     func(i int, tx []byte, res abci.ResponseDeliverTx)
	AfterEnd    func(abci.ResponseEndBlock)
	AfterCommit func(appHash []byte)
	// BeforeCommit runs after EndBlock and before Commit; returning false aborts (crash point).
	BeforeCommit func() bool
}

// SaveBlock stores the block in the node's block store if it is not there yet.
func SaveBlock(n *Node, spec *BlockSpec) {
	if n.Blocks.Height() >= spec.Height {
		return
	}
	parts := spec.Block.MakePartSet(tmtypes.BlockPartSizeBytes)
	blockID := tmtypes.BlockID{Hash: spec.Hash, PartsHeader: parts.Header()}
	n.Blocks.SaveBlock(spec.Block, parts, tmtypes.NewCommit(blockID, nil))
}

// ExecBlock runs one block on a node. It returns nil if a BeforeCommit hook aborted.
func ExecBlock(n *Node, spec *BlockSpec, ph *Phases) *BlockResult {
	if ph == nil {
		ph = &Phases{}
	}
	SaveBlock(n, spec)
	if ph.BeforeBegin != nil {
		ph.BeforeBegin()
	}
	res := &BlockResult{}
	res.Begin = n.App.BeginBlock(abci.RequestBeginBlock{
		Hash:                spec.Hash,
		Header:              tmtypes.TM2PB.Header(&spec.Block.Header),
		LastCommitInfo:      abci.LastCommitInfo{Votes: spec.Votes},
		ByzantineValidators: spec.Evidence,
	})
	if ph.AfterBegin != nil {
		ph.AfterBegin(res.Begin)
	}
	for i, tx := range spec.Txs {
		if ph.BeforeTx != nil {
			ph.BeforeTx(i, tx)
		}
		r := n.App.DeliverTx(abci.RequestDeliverTx{Tx: tx})
		res.Txs = append(res.Txs, r)
		if ph.AfterTx != nil {
			ph.AfterTx(i, tx, r)
		}
	}
	res.End = n.App.EndBlock(abci.RequestEndBlock{Height: spec.Height})
	if ph.AfterEnd != nil {
		ph.AfterEnd(res.End)
	}
	if ph.BeforeCommit != nil && !ph.BeforeCommit() {
		return nil
	}
	c := n.App.Commit()
	res.AppHash = c.Data
	IndexBlock(n, spec, res)
	if ph.AfterCommit != nil {
		ph.AfterCommit(res.AppHash)
	}
	return res
}

// IndexBlock feeds the transaction indexer the way state/execution.go of the fork does.
func IndexBlock(n *Node, spec *BlockSpec, res *BlockResult) {
	b := txindex.NewBatch(int64(len(spec.Txs)))
	for i, tx := range spec.Txs {
		r := res.Txs[i]
		_ = b.Add(&tmtypes.TxResult{Height: spec.Height, Index: uint32(i), Tx: tmtypes.Tx(tx), Result: r})
	}
	if err := n.Indexer.AddBatch(b); err != nil {
		panic("HARNESS: indexer AddBatch: " + err.Error())
	}
}

// Advance records an executed block in the driver's chain state.
func (d *Driver) Advance(spec *BlockSpec, res *BlockResult) {
	d.Height = spec.Height
	d.Time = spec.Time
	parts := spec.Block.MakePartSet(tmtypes.BlockPartSizeBytes)
	d.LastBlock = tmtypes.BlockID{Hash: spec.Hash, PartsHeader: parts.Header()}
	d.AppHash = res.AppHash
	d.Cumulative.Apply(res.End.ValidatorUpdates)
	d.sets[spec.Height+2] = d.Cumulative.Clone()
	if _, ok := d.sets[spec.Height+1]; !ok {
		d.sets[spec.Height+1] = d.sets[spec.Height].Clone()
	}
	d.Log = append(d.Log, spec)
}

// ---------------------------------------------------------------- Tendermint RPC client stub

// TmStub implements the part of client.Client the application uses; everything else panics
// through the nil embedded interface (a harness error, never a verdict).
type TmStub struct {
	client.Client
	node       *Node
	CatchingUp bool
	Mempool    [][]byte // what the node itself broadcast (auto claim/proof)
	drv        *Driver
}

// ConsensusReactorStatus: the production EndBlock goroutine (which sleeps 2-5 s of real time and
// then runs the auto claim/proof pass) always sees a syncing node here, so it never acts on its
// own; the harness runs that pass itself at schedule-chosen points (N5). Other callers (relay
// serving) see the configured state.
func (t *TmStub) ConsensusReactorStatus() (*ctypes.ResultConsensusReactorStatus, error) {
	pcs := make([]uintptr, 12)
	n := runtime.Callers(2, pcs)
	frames := runtime.CallersFrames(pcs[:n])
	for {
		f, more := frames.Next()
		if strings.Contains(f.Function, "AppModule.EndBlock") {
			return &ctypes.ResultConsensusReactorStatus{IsCatchingUp: true}, nil
		}
		if !more {
			break
		}
	}
	return &ctypes.ResultConsensusReactorStatus{IsCatchingUp: t.CatchingUp}, nil
}

func (t *TmStub) BroadcastTxSync(tx tmtypes.Tx) (*ctypes.ResultBroadcastTx, error) {
	t.Mempool = append(t.Mempool, append([]byte{}, tx...))
	return &ctypes.ResultBroadcastTx{Code: 0, Hash: tx.Hash()}, nil
}

func (t *TmStub) BroadcastTxAsync(tx tmtypes.Tx) (*ctypes.ResultBroadcastTx, error) {
	return t.BroadcastTxSync(tx)
}

func (t *TmStub) Status() (*ctypes.ResultStatus, error) {
	h := t.node.App.LastBlockHeight()
	return &ctypes.ResultStatus{SyncInfo: ctypes.SyncInfo{LatestBlockHeight: h, CatchingUp: t.CatchingUp}}, nil
}

func (t *TmStub) Block(height *int64) (*ctypes.ResultBlock, error) {
	h := t.node.Blocks.Height()
	if height != nil {
		h = *height
	}
	b := t.node.Blocks.LoadBlock(h)
	m := t.node.Blocks.LoadBlockMeta(h)
	if b == nil || m == nil {
		return nil, fmt.Errorf("block %d not found", h)
	}
	return &ctypes.ResultBlock{BlockID: m.BlockID, Block: b}, nil
}

func (t *TmStub) Tx(hash []byte, prove bool) (*ctypes.ResultTx, error) {
	r, err := t.node.Indexer.Get(hash)
	if err != nil {
		return nil, err
	}
	if r == nil {
		return nil, fmt.Errorf("tx (%X) not found", hash)
	}
	return &ctypes.ResultTx{Hash: hash, Height: r.Height, Index: r.Index, TxResult: r.Result, Tx: r.Tx}, nil
}

// TxSearch mirrors rpc/core.TxSearch of the fork: parse the query, ask the indexer, wrap.
func (t *TmStub) TxSearch(q string, prove bool, page, perPage int, orderBy string) (*ctypes.ResultTxSearch, error) {
	return txSearch(t.node, q, prove, page, perPage, orderBy)
}

func (t *TmStub) ABCIQueryWithOptions(path string, data tmbytes.HexBytes, opts client.ABCIQueryOptions) (*ctypes.ResultABCIQuery, error) {
	r := t.node.App.Query(abci.RequestQuery{Path: path, Data: data, Height: opts.Height, Prove: opts.Prove})
	return &ctypes.ResultABCIQuery{Response: r}, nil
}

func (t *TmStub) ABCIQuery(path string, data tmbytes.HexBytes) (*ctypes.ResultABCIQuery, error) {
	return t.ABCIQueryWithOptions(path, data, client.DefaultABCIQueryOptions)
}

func (t *TmStub) IsRunning() bool { return true }
func (t *TmStub) Stop() error     { return nil }

var _ = context.Background
var _ = sdk.Address(nil)
