package chainsim

// relaysim (property C34): one servicer node at a committed height, several client requests and
// the node's own claim pass in flight at once. Every request runs on its own goroutine; at the
// SimYield points of hook H1 (relay validated / proof loaded for read-modify-write / proof stored /
// claim about to seal / evidence about to be sealed on reaching the limit) the goroutine parks and
// the schedule decides which one proceeds. One goroutine runs at a time, so an interleaving is
// exactly the list of "run task i" steps and replays bit for bit.

import (
	"encoding/hex"
	"fmt"
	"os"
	"sort"
	"strings"

	"verif/sim/core"

	pocket "github.com/pokt-network/pocket-core/x/pocketcore"
	pc "github.com/pokt-network/pocket-core/x/pocketcore/types"

	sdk "github.com/pokt-network/pocket-core/types"
)

type rsEngine struct{}

func (rsEngine) Name() string { return "relaysim" }

func init() { core.Register(rsEngine{}) }

// RSTask is one concurrent request of a round.
type RSTask struct {
	Kind    string `json:"kind"` // relay | claim
	Entropy int64  `json:"entropy,omitempty"`
	Late    bool   `json:"late,omitempty"` // relay for the previous session (within the client tolerance)
}

type RSStep struct {
	Op    string   `json:"op"` // round | run | block
	Tasks []RSTask `json:"tasks,omitempty"`
	Task  int      `json:"task,omitempty"`
	App   int      `json:"app,omitempty"`
	Chain string   `json:"chain,omitempty"`
}

type rsTask struct {
	RSTask
	id       int
	relay    pc.Relay
	hash     string
	header   pc.SessionHeader
	resume   chan struct{}
	started  bool
	done     bool
	parkedAt string
	resp     *pc.RelayResponse
	err      error
	doneAt   int // event number at which the response was returned
	storedAt int // event number at which its proof had been stored (yield point relay/stored)
}

type rsEvent struct {
	task  int
	point string
	done  bool
}

type rsRound struct {
	tasks       []*rsTask
	events      chan rsEvent
	cur         *rsTask
	eventNo     int
	sealedAt    map[string]int  // header hash -> event number at which the evidence was first seen sealed
	present     map[string]bool // header hash -> evidence currently stored
	discardedAt map[string]int  // header hash -> last event at which stored evidence disappeared (claim pass discard)
	servicer    int
	app         int
	chain       string
	hasClaim    bool
}

func (rsEngine) Run(prop string, seed uint64, tier string, replay *core.Schedule) (*core.Schedule, *core.Result) {
	r := core.NewRand(seed)
	res := core.NewResult(seed)
	var cfg *Config
	if replay != nil {
		cfg = &Config{}
		core.Dec(replay.Config, cfg)
	} else {
		cfg = SwarmConfig(r.Sub("cfg"))
		t := r.Sub("tune")
		// small per-node allowances so that a handful of concurrent relays reaches the limit
		cfg.BaseRelaysPerPOKT = int64([]int{100, 400, 1000, 4000}[t.Intn(4)])
		cfg.MinProofs = int64(t.Range(2, 4))
		// enough servicers on every chain for a session to exist
		if cfg.NNodes < 5 {
			cfg.NNodes = 5
		}
		cfg.SessionNodeCount = int64(t.Range(1, 2))
		cfg.Steps = t.Range(20, 70)
	}
	s := &Sim{prop: prop, tier: tier, cfg: cfg, res: res, txs: map[int]*TxRecord{}, byHash: map[string]*TxRecord{}, book: map[int64]*Dump{},
		results: map[int64]*BlockResult{}, effective: map[string]bool{}, served: map[string]int{}, sessions: map[string]string{}, claims: map[string]*claimInst{}, forged: map[string]string{}, dupEvidence: map[string]bool{}, relayEntropy: 5000, replay: replay != nil, nextID: 1, entropy: 1000, life: newLifecycle()}
	s.node = NewNode(cfg, "primary", NewDisks(), 0, servicerKeys(cfg))
	// late relays: requests for the previous session are served for one more session
	pc.GlobalPocketConfig.ClientSessionSyncAllowance = 1
	s.drv = NewDriver()
	s.drv.InitChain(s.node.InitChain())
	s.stepNo = -1
	for i := 0; i < warmupBlocks && !s.aborted; i++ {
		if i == warmupBlocks-1 {
			s.warmupParams()
		}
		s.execBlock(&Step{Op: "block", DtS: 900})
	}
	sched := &core.Schedule{Engine: "relaysim", Property: prop, Seed: seed, Tier: tier, Config: core.Enc(cfg)}
	if replay == nil && tier == "thorough" && seed%2 == 0 {
		// the thorough tier also runs long histories (the configuration records the length)
		cfg.Steps *= 3
	}
	n := cfg.Steps
	if replay != nil {
		n = len(replay.Steps)
	}
	g := r.Sub("steps")
	var round *rsRound
	defer func() { pc.SimYieldFn = nil }()
	for i := 0; i < n && !s.aborted; i++ {
		s.stepNo = i
		st := &RSStep{}
		if replay != nil {
			core.Dec(replay.Steps[i], st)
		} else {
			st = s.rsGen(g, round)
		}
		sched.Steps = append(sched.Steps, core.Enc(st))
		var out string
		s.guard("relaysim/"+st.Op, func() {
			switch st.Op {
			case "round":
				if round != nil {
					s.rsFinish(round)
				}
				round = s.rsStart(st)
				out = fmt.Sprintf("tasks=%d", len(st.Tasks))
			case "run":
				if round != nil {
					out = s.rsRun(round, st.Task)
				}
			case "block":
				if round != nil {
					s.rsFinish(round)
					round = nil
				}
				s.execBlock(&Step{Op: "block", DtS: 60})
				out = fmt.Sprintf("h=%d", s.drv.Height)
			}
		})
		res.Logf("%d %s -> %s", i, string(sched.Steps[i]), out)
	}
	if round != nil && !s.aborted {
		s.guard("relaysim/finish", func() { s.rsFinish(round) })
	}
	pc.SimYieldFn = nil
	res.Steps = n
	res.SimSeconds = s.simSeconds
	res.SchedFP = core.FP(fmt.Sprint(*cfg))
	res.StateFP = core.FP(fmt.Sprintf("%x", s.drv.AppHash))
	res.Finish()
	return sched, res
}

// ---------------------------------------------------------------- generation

func (s *Sim) rsGen(r *core.Rand, round *rsRound) *RSStep {
	if round != nil {
		var pending []int
		for _, t := range round.tasks {
			if !t.done && !s.rsBlocked(round, t) {
				pending = append(pending, t.id)
			}
		}
		if len(pending) > 0 {
			// bias: let the claim pass reach its seal point early in about half of the rounds, so
			// that relays run inside the window between its reading and its sealing of the evidence
			for _, t := range round.tasks {
				if t.Kind == "claim" && !t.done && t.parkedAt != "claim/before-seal" && r.Chance(0.5) {
					return &RSStep{Op: "run", Task: t.id}
				}
			}
			return &RSStep{Op: "run", Task: pending[r.Intn(len(pending))]}
		}
	}
	if r.Chance(0.45) {
		return &RSStep{Op: "block"}
	}
	st := &RSStep{Op: "round", App: appBase + r.Intn(s.cfg.NApps), Chain: s.cfg.Chains[r.Intn(len(s.cfg.Chains))]}
	// prefer an application that is staked for the chain with a positive per-node allowance
	if v := s.viewAt(s.sessionHeightAt(s.drv.Height)); v != nil {
		type pair struct {
			app   int
			chain string
		}
		var ok []pair
		for _, addr := range sortedAddrs(v.Apps) {
			a := v.Apps[addr]
			i := s.keyIndexOf(addr)
			if i < 0 || a.Status != sdk.Staked {
				continue
			}
			for _, c := range a.Chains {
				h := pc.SessionHeader{ApplicationPubKey: KeyFor(s.cfg.KeySeed, i).PublicKey().RawString(), Chain: c, SessionBlockHeight: s.sessionHeightAt(s.drv.Height)}
				if s.allowancePositive(h) {
					ok = append(ok, pair{i, c})
				}
			}
		}
		if len(ok) > 0 && r.Chance(0.9) {
			p := ok[r.Intn(len(ok))]
			st.App, st.Chain = p.app, p.chain
		}
	}
	k := r.Range(2, 6)
	lateOK := s.sessionHeightAt(s.drv.Height) > s.bpsAt(s.drv.Height)
	claim := r.Chance(0.5)
	if lateOK && s.claimableEvidence(s.sessionHeightAt(s.drv.Height)-s.bpsAt(s.drv.Height)) {
		// the previous session left evidence worth claiming: race its sealing with late relays
		claim = r.Chance(0.85)
	}
	for i := 0; i < k; i++ {
		t := RSTask{Kind: "relay"}
		s.relayEntropy++
		t.Entropy = s.relayEntropy
		if i > 0 && r.Chance(0.35) {
			// the same request again (a client retry, a load balancer replay)
			t.Entropy = st.Tasks[r.Intn(len(st.Tasks))].Entropy
		}
		if lateOK && (claim && r.Chance(0.7) || r.Chance(0.15)) {
			t.Late = true
		}
		st.Tasks = append(st.Tasks, t)
	}
	if claim {
		st.Tasks = append(st.Tasks, RSTask{Kind: "claim"})
	}
	return st
}

// claimableEvidence: some servicer of this process holds unsealed evidence of that session with at
// least the minimum number of proofs.
func (s *Sim) claimableEvidence(sessionHeight int64) bool {
	addrs := make([]string, 0, len(pc.GlobalPocketNodes))
	for a := range pc.GlobalPocketNodes {
		addrs = append(addrs, a)
	}
	sort.Strings(addrs)
	seen := map[*pc.CacheStorage]bool{}
	for _, a := range addrs {
		st := pc.GlobalPocketNodes[a].EvidenceStore
		if st == nil || seen[st] {
			continue
		}
		seen[st] = true
		it := pc.EvidenceIterator(st)
		found := false
		for ; it.Valid(); it.Next() {
			e := it.Value()
			if e.SessionBlockHeight == sessionHeight && e.NumOfProofs >= s.cfg.MinProofs && !st.IsSealed(e) {
				found = true
			}
		}
		it.Close()
		if found {
			return true
		}
	}
	return false
}

// ---------------------------------------------------------------- rounds

func (s *Sim) rsStart(st *RSStep) *rsRound {
	rd := &rsRound{events: make(chan rsEvent), sealedAt: map[string]int{}, present: map[string]bool{}, discardedAt: map[string]int{}, servicer: -1, app: st.App, chain: st.Chain}
	if s.committedView == nil {
		return rd
	}
	h := s.drv.Height
	sh := s.sessionHeightAt(h)
	s.node.Tm.CatchingUp = false
	headerFor := func(late bool) pc.SessionHeader {
		x := sh
		if late {
			x = sh - s.bpsAt(h)
		}
		return pc.SessionHeader{ApplicationPubKey: KeyFor(s.cfg.KeySeed, st.App).PublicKey().RawString(), Chain: st.Chain, SessionBlockHeight: x}
	}
	// one servicer of this process that is in both sessions' node lists (or at least the current one)
	servicerIn := func(header pc.SessionHeader) map[int]bool {
		out := map[int]bool{}
		disp, err := s.node.App.HandleDispatch(header)
		if err != nil || disp == nil {
			if err != nil {
				s.res.Probe("dispatch_failed_" + strings.Join(strings.Fields(strings.ReplaceAll(err.Error(), "\n", " ")), "_"))
			}
			return out
		}
		for _, n := range disp.Session.SessionNodes {
			if i := s.keyIndexOf(n.GetAddress().String()); i >= 0 {
				if _, ok := pc.GlobalPocketNodes[n.GetAddress().String()]; ok {
					out[i] = true
				}
			}
		}
		return out
	}
	cur := servicerIn(headerFor(false))
	var cands []int
	for i := range cur {
		cands = append(cands, i)
	}
	sort.Ints(cands)
	if len(cands) == 0 {
		s.res.Probe("no_local_servicer_in_session")
		return rd
	}
	rd.servicer = cands[0]
	anyLate := false
	for _, t := range st.Tasks {
		anyLate = anyLate || t.Late
	}
	var lateSet map[int]bool
	if anyLate && sh-s.bpsAt(h) >= 1 {
		lateSet = servicerIn(headerFor(true))
		for _, c := range cands {
			if lateSet[c] {
				rd.servicer = c
				break
			}
		}
	}
	for i, t := range st.Tasks {
		rt := &rsTask{RSTask: t, id: i, resume: make(chan struct{})}
		switch t.Kind {
		case "relay":
			late := t.Late && lateSet != nil && lateSet[rd.servicer]
			rt.header = headerFor(late)
			if !s.allowancePositive(rt.header) {
				s.res.Probe("relay_skipped_zero_allowance_would_kill_node")
				rt.done = true
				break
			}
			rt.relay = s.makeRelay(st.App, st.Chain, rt.header.SessionBlockHeight, rd.servicer, t.Entropy, "")
			rt.hash = hex.EncodeToString(rt.relay.Proof.Hash())
		case "claim":
			rd.hasClaim = true
		}
		rd.tasks = append(rd.tasks, rt)
	}
	pc.SimYieldFn = func(point string) {
		t := rd.cur
		if t == nil {
			return // not inside a scheduled task (e.g. block execution)
		}
		t.parkedAt = point
		rd.events <- rsEvent{t.id, point, false}
		<-t.resume
	}
	s.res.Case(fmt.Sprintf("round/tasks=%d/claim=%v/late=%v", len(st.Tasks), rd.hasClaim, anyLate))
	return rd
}

func (s *Sim) allowancePositive(header pc.SessionHeader) bool {
	_, ok := s.allowance(header)
	return ok
}

// allowance is the number of relays the application allows one node in that session.
func (s *Sim) allowance(header pc.SessionHeader) (int64, bool) {
	start := s.viewAt(header.SessionBlockHeight)
	if start == nil {
		return 0, false
	}
	pk, err := hex.DecodeString(header.ApplicationPubKey)
	if err != nil {
		return 0, false
	}
	a, ok := start.Apps[sdk.Address(addressFromEd25519(pk)).String()]
	if !ok || len(a.Chains) == 0 {
		return 0, false
	}
	cnt, _ := start.ParamInt("pocketcore/SessionNodeCount")
	if cnt <= 0 {
		return 0, false
	}
	m := maxPossibleRelays(a.MaxRelays, int64(len(a.Chains)), cnt)
	return m, m >= 1
}

func (s *Sim) rsBody(rd *rsRound, t *rsTask) {
	n := s.node
	switch t.Kind {
	case "relay":
		t.resp, _, t.err = n.App.HandleRelay(t.relay)
	case "claim":
		k := n.App.VerifPocketKeeper()
		ctx, err := n.App.NewContext(n.App.LastBlockHeight())
		if err != nil {
			return
		}
		if pn, ok := pc.GlobalPocketNodes[s.key(rd.servicer).String()]; ok {
			k.SendClaimTx(ctx, k, n.Tm, pn, pocket.ClaimTx)
		}
	}
}

// rsRun lets one task proceed to its next yield point (or to completion).
func (s *Sim) rsRun(rd *rsRound, id int) string {
	if id < 0 || id >= len(rd.tasks) || rd.tasks[id].done || rd.servicer < 0 {
		return "noop"
	}
	t := rd.tasks[id]
	if s.rsBlocked(rd, t) {
		// it would block on the relay lock held by a parked request; a real scheduler cannot run it
		s.res.Probe("step_on_blocked_task")
		return fmt.Sprintf("task %d blocked", t.id)
	}
	rd.cur = t
	if !t.started {
		t.started = true
		go func() {
			<-t.resume
			defer func() {
				if p := recover(); p != nil {
					t.err = fmt.Errorf("panic: %v", p)
				}
				rd.events <- rsEvent{t.id, "", true}
			}()
			s.rsBody(rd, t)
		}()
	}
	t.resume <- struct{}{}
	ev := <-rd.events
	rd.cur = nil
	rd.eventNo++
	if ev.task != t.id {
		panic(fmt.Sprintf("HARNESS: scheduler resumed task %d, task %d reported", t.id, ev.task))
	}
	if ev.done {
		t.done = true
		t.doneAt = rd.eventNo
		if t.err != nil && strings.HasPrefix(t.err.Error(), "panic:") {
			// not part of the statement (it speaks about the stored evidence); counted
			s.res.Probe("task_panicked_" + t.Kind)
		}
	}
	if ev.point == "relay/stored" {
		t.storedAt = rd.eventNo
	}
	s.res.Fault("interleave@" + orStr(ev.point, "done"))
	// seal bookkeeping after every scheduling step
	if pn, ok := pc.GlobalPocketNodes[s.key(rd.servicer).String()]; ok {
		for _, x := range rd.tasks {
			if x.Kind != "relay" || x.hash == "" {
				continue
			}
			hh := x.header.HashString()
			if _, seen := rd.sealedAt[hh]; !seen && pn.EvidenceStore.IsSealed(pc.Evidence{SessionHeader: x.header, EvidenceType: pc.RelayEvidence}) {
				rd.sealedAt[hh] = rd.eventNo
			}
			// the claim pass discards evidence of a finished session that is not worth claiming; the
			// relays in it are deliberately dropped, which the statement does not forbid
			_, gerr := pc.GetEvidence(x.header, pc.RelayEvidence, sdk.ZeroInt(), pn.EvidenceStore)
			if rd.present[hh] && gerr != nil {
				rd.discardedAt[hh] = rd.eventNo
				s.res.Probe("evidence_discarded_by_claim_pass")
			}
			rd.present[hh] = gerr == nil
		}
	}
	if os.Getenv("SIM_TRACE") != "" {
		if pn, ok := pc.GlobalPocketNodes[s.key(rd.servicer).String()]; ok {
			it := pc.EvidenceIterator(pn.EvidenceStore)
			for ; it.Valid(); it.Next() {
				e := it.Value()
				ents := []int64{}
				for _, p := range e.Proofs {
					if rp, ok := p.(pc.RelayProof); ok {
						ents = append(ents, rp.Entropy)
					}
				}
				s.res.Tracef("      after task %d@%s: stored evidence session %d chain %s proofs=%d num=%d %v", t.id, ev.point, e.SessionBlockHeight, e.Chain, len(e.Proofs), e.NumOfProofs, ents)
			}
			it.Close()
		}
	}
	if ev.done {
		return fmt.Sprintf("task %d done err=%v", t.id, t.err != nil)
	}
	return fmt.Sprintf("task %d at %s", t.id, ev.point)
}

// rsBlocked: the task is parked right before the relay lock and another request holds it.
func (s *Sim) rsBlocked(rd *rsRound, t *rsTask) bool {
	if t.parkedAt != "relay/before-lock" {
		return false
	}
	pn, ok := pc.GlobalPocketNodes[s.key(rd.servicer).String()]
	return ok && pn.EvidenceStore.VerifRelayLockHeld()
}

func orStr(a, b string) string {
	if a == "" {
		return b
	}
	return a
}

// rsFinish drains the round (tasks the schedule left parked run to completion in index order) and
// judges the stored evidence.
func (s *Sim) rsFinish(rd *rsRound) {
	for rd.servicer >= 0 {
		// round robin, so that a request waiting for the relay lock never starves its holder
		pending, progressed := 0, false
		for _, t := range rd.tasks {
			if t.done {
				continue
			}
			pending++
			if !s.rsBlocked(rd, t) {
				s.rsRun(rd, t.id)
				s.res.Probe("drained_step")
				progressed = true
			}
		}
		if pending == 0 {
			break
		}
		if !progressed {
			panic("HARNESS: relaysim deadlock: every pending request waits for the relay lock")
		}
	}
	pc.SimYieldFn = nil
	if rd.servicer < 0 {
		return
	}
	pn, ok := pc.GlobalPocketNodes[s.key(rd.servicer).String()]
	if !ok {
		return
	}
	subject := "relays-only"
	if rd.hasClaim {
		subject = "racing-claim-pass"
	}
	headers := map[string]pc.SessionHeader{}
	for _, t := range rd.tasks {
		if t.Kind == "relay" && t.hash != "" {
			headers[t.header.HashString()] = t.header
		}
	}
	keys := make([]string, 0, len(headers))
	for k := range headers {
		keys = append(keys, k)
	}
	sort.Strings(keys)
	for _, hk := range keys {
		header := headers[hk]
		answered, identical := 0, false
		seenEntropy := map[int64]bool{}
		for _, t := range rd.tasks {
			if t.Kind == "relay" && t.header.HashString() == hk {
				if seenEntropy[t.Entropy] {
					identical = true
				}
				seenEntropy[t.Entropy] = true
				if t.err == nil && t.resp != nil && t.resp.Signature != "" {
					answered++
				}
			}
		}
		s.res.ProbeN("relay_answered", answered)
		ev, err := pc.GetEvidence(header, pc.RelayEvidence, sdk.ZeroInt(), pn.EvidenceStore)
		for _, t := range rd.tasks {
			s.res.Tracef("   task %d %s e=%d late=%v header=%d done=%d err=%v resp=%v", t.id, t.Kind, t.Entropy, t.Late, t.header.SessionBlockHeight, t.doneAt, t.err, t.resp != nil)
		}
		s.res.Tracef("   evidence for %d: err=%v proofs=%d num=%d", header.SessionBlockHeight, err, len(ev.Proofs), ev.NumOfProofs)
		if os.Getenv("SIM_TRACE") != "" {
			k, kerr := pc.KeyForEvidence(header, pc.RelayEvidence)
			v, found := pn.EvidenceStore.Get(k, pc.Evidence{})
			raw, _ := pn.EvidenceStore.DB.Get(k)
			s.res.Tracef("   key=%x kerr=%v found=%v val=%T rawlen=%d header=%+v", k, kerr, found, v, len(raw), header)
		}
		if err != nil {
			// nothing stored, or the claim pass discarded it (too few proofs, not worth claiming)
			if _, disc := rd.discardedAt[hk]; answered > 0 && !rd.hasClaim && !disc {
				s.violate("C34", "answered-relay-not-recorded", subject, fmt.Sprintf("height %d: %d relays were answered for session height %d and no evidence is stored", s.drv.Height, answered, header.SessionBlockHeight))
			}
			s.res.Probe("evidence_absent_after_round")
			continue
		}
		count := map[string]int{}
		for _, p := range ev.Proofs {
			count[hex.EncodeToString(p.Hash())]++
		}
		dupKeys := make([]string, 0)
		for hh, c := range count {
			if c > 1 {
				dupKeys = append(dupKeys, hh)
			}
		}
		sort.Strings(dupKeys)
		for _, hh := range dupKeys {
			// attribute the duplicate to this round's requests; one left by an earlier round was
			// reported there
			nTasks := 0
			for _, t := range rd.tasks {
				if t.Kind == "relay" && t.hash == hh {
					nTasks++
				}
			}
			if nTasks == 0 {
				continue
			}
			sub := "identical-requests"
			if nTasks == 1 {
				sub = "single-request"
			}
			s.violate("C34", "same-proof-stored-twice", sub, fmt.Sprintf("height %d session height %d: proof %s… (sent by %d requests of this round) is stored %d times (%d proofs in evidence)", s.drv.Height, header.SessionBlockHeight, hh[:12], nTasks, count[hh], len(ev.Proofs)))
			break
		}
		if allow, ok := s.allowance(header); ok {
			held := int64(len(ev.Proofs))
			if ev.NumOfProofs > held {
				held = ev.NumOfProofs
			}
			if held > allow {
				s.violate("C34", "more-relays-than-allowed", subject, fmt.Sprintf("height %d session height %d: evidence holds %d relays, the application allows this node %d", s.drv.Height, header.SessionBlockHeight, held, allow))
			}
			if held == allow {
				s.res.Probe("evidence_at_allowance")
			}
		}
		sealedAt, sealed := rd.sealedAt[hk]
		for _, t := range rd.tasks {
			if t.Kind != "relay" || t.header.HashString() != hk || t.err != nil || t.resp == nil || t.resp.Signature == "" {
				continue
			}
			if sealed && t.doneAt >= sealedAt {
				s.res.Probe("relay_answered_after_seal")
				continue // answered after sealing: outside the statement
			}
			if d, ok := rd.discardedAt[hk]; ok && t.storedAt <= d {
				s.res.Probe("relay_in_discarded_evidence")
				continue // recorded, then discarded with its evidence by the claim pass
			}
			if count[t.hash] == 0 {
				s.violate("C34", "answered-relay-not-recorded", subject, fmt.Sprintf("height %d session height %d: the relay with entropy %d was answered with a signed response (event %d, sealed=%v at %d) and is not in the stored evidence (%d proofs)", s.drv.Height, header.SessionBlockHeight, t.Entropy, t.doneAt, sealed, sealedAt, len(ev.Proofs)))
				break
			}
		}
		s.res.Case(fmt.Sprintf("evidence/proofs=%d/answered=%d/sealed=%v/identical=%v", len(ev.Proofs), answered, sealed, identical))
	}
}
