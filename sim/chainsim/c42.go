package chainsim

// C42: transaction search returns exactly the matching indexed transactions. The searcher goes
// through the exported PocketCoreApp query methods (what the RPC handlers call), which reach the
// real indexer through the stubbed Tendermint client.

import (
	"bytes"
	"fmt"
	"os"
	"sort"
	"strings"

	ctypes "github.com/tendermint/tendermint/rpc/core/types"
	tmtypes "github.com/tendermint/tendermint/types"
)

type idxEntry struct {
	// where the entry sits in the height/sender/recipient index
	atHeight int64
	atIndex  uint32
	stale    bool // the hash entry was overwritten by a later delivery of the same bytes
	// what hash lookup reports for it
	height    int64
	index     uint32
	hash      []byte
	tx        []byte
	code      uint32
	signer    string
	recipient string
}

func (e idxEntry) id() string { return fmt.Sprintf("%d/%d", e.height, e.index) }

// searchModel lists the transactions the index holds, judged by hash lookup, and checks each
// stored result against what DeliverTx answered.
func (s *Sim) searchModel(when string) []idxEntry {
	var model []idxEntry
	for _, spec := range s.drv.Log {
		res := s.results[spec.Height]
		if res == nil {
			continue
		}
		for i, tx := range spec.Txs {
			r := res.Txs[i]
			hash := tmtypes.Tx(tx).Hash()
			got, err := s.node.App.QueryTx(fmt.Sprintf("%x", hash), false)
			changed := s.effective[fmt.Sprintf("%d/%d", spec.Height, i)]
			if err != nil || got == nil {
				if changed {
					s.violate("C42", "effective-tx-not-indexed", "hash", fmt.Sprintf("%s: tx %d of block %d changed state (code %d/%s) but hash lookup finds nothing (%v)", when, i, spec.Height, r.Code, r.Codespace, err))
				}
				continue
			}
			// the same bytes may have been delivered more than once; the index keeps the last write
			e := idxEntry{height: got.Height, index: got.Index, hash: hash, tx: tx, code: got.TxResult.Code}
			if !bytes.Equal(got.Tx, tx) {
				s.violate("C42", "hash-lookup-wrong-tx", "hash", fmt.Sprintf("%s: hash %x returns different transaction bytes", when, hash))
			}
			e.atHeight, e.atIndex = spec.Height, uint32(i)
			e.signer = fmt.Sprintf("%x", []byte(r.Signer))
			e.recipient = fmt.Sprintf("%x", []byte(r.Recipient))
			if got.Height == spec.Height && got.Index == uint32(i) {
				if got.TxResult.Code != r.Code || got.TxResult.Codespace != r.Codespace || !bytes.Equal(got.TxResult.Data, r.Data) {
					s.violate("C42", "hash-lookup-wrong-result", "hash", fmt.Sprintf("%s: tx %d of block %d: stored result %d/%s, delivered %d/%s", when, i, spec.Height, got.TxResult.Code, got.TxResult.Codespace, r.Code, r.Codespace))
				}
				model = append(model, e)
			} else if got.TxResult.Code == r.Code && got.TxResult.Codespace == r.Codespace && (got.Height > spec.Height || got.Height == spec.Height && got.Index > uint32(i)) {
				// the same bytes were delivered again later with the same (failing) result and indexed
				// again: the hash entry now describes the later delivery
				e.stale = true
				model = append(model, e)
			}
		}
	}
	sort.Slice(model, func(i, j int) bool {
		if model[i].atHeight != model[j].atHeight {
			return model[i].atHeight < model[j].atHeight
		}
		return model[i].atIndex < model[j].atIndex
	})
	return model
}

func strict(es []idxEntry) []idxEntry {
	var out []idxEntry
	for _, e := range es {
		if !e.stale {
			out = append(out, e)
		}
	}
	return out
}

func ids(es []idxEntry) []string {
	out := make([]string, len(es))
	for i, e := range es {
		out[i] = e.id()
	}
	return out
}

func reverse(es []idxEntry) []idxEntry {
	out := make([]idxEntry, len(es))
	for i, e := range es {
		out[len(es)-1-i] = e
	}
	return out
}

// pageThrough collects all pages of a search and checks totals and page sizes.
func (s *Sim) pageThrough(when, what string, perPage int, all []idxEntry, fetch func(page int) (*ctypes.ResultTxSearch, error)) {
	want := strict(all)
	if len(want) == 0 {
		return
	}
	var got []string
	for page := 1; page <= len(want)/perPage+3; page++ {
		r, err := fetch(page)
		if err != nil || r == nil {
			s.violate("C42", "search-error", what, fmt.Sprintf("%s: %s page %d per-page %d: %v", when, what, page, perPage, err))
			return
		}
		if r.TotalCount != len(want) && r.TotalCount == len(all) {
			s.violate("C42", "stale-entry-after-redelivery", strings.SplitN(what, "/", 2)[0], fmt.Sprintf("%s: %s page %d per-page %d reports total %d: the %d matching indexed transactions plus %d entries of transactions that were delivered (and indexed) again later", when, what, page, perPage, r.TotalCount, len(want), len(all)-len(want)))
			return
		}
		if r.TotalCount != len(want) {
			s.violate("C42", "search-total", what, fmt.Sprintf("%s: %s page %d per-page %d reports total %d, matching indexed transactions %d", when, what, page, perPage, r.TotalCount, len(want)))
			return
		}
		if len(r.Txs) > perPage {
			s.violate("C42", "search-page-too-long", what, fmt.Sprintf("%s: %s page %d per-page %d returned %d entries", when, what, page, perPage, len(r.Txs)))
		}
		if len(r.Txs) == 0 {
			break
		}
		for _, t := range r.Txs {
			if t == nil {
				got = append(got, "nil")
				continue
			}
			got = append(got, fmt.Sprintf("%d/%d", t.Height, t.Index))
		}
	}
	if fmt.Sprint(got) != fmt.Sprint(ids(want)) {
		s.violate("C42", "search-result", what, fmt.Sprintf("%s: %s per-page %d returned %v, expected %v", when, what, perPage, got, ids(want)))
	}
}

func (s *Sim) checkSearch(when string) {
	model := s.searchModel(when)
	if os.Getenv("SIM_DEBUG_INDEX") != "" {
		fmt.Fprintln(os.Stderr, "MODEL", ids(model))
		s.node.Disks.Index.Ascend(func(k, v []byte) bool {
			if len(k) > 3 && k[0] == 't' && k[1] == 'x' {
				fmt.Fprintf(os.Stderr, "IDX %s -> %x\n", k, v[:4])
			}
			return true
		})
	}
	if len(model) == 0 {
		return
	}
	byHeight := map[int64][]idxEntry{}
	bySigner := map[string][]idxEntry{}
	byRecipient := map[string][]idxEntry{}
	for _, e := range model {
		byHeight[e.atHeight] = append(byHeight[e.atHeight], e)
		if e.signer != "" {
			bySigner[e.signer] = append(bySigner[e.signer], e)
		}
		if e.recipient != "" {
			byRecipient[e.recipient] = append(byRecipient[e.recipient], e)
		}
	}
	app := s.node.App
	pageSizes := []int{1, 2, 3, 30}
	for _, dir := range []string{"asc", "desc"} {
		order := func(es []idxEntry) []idxEntry {
			if dir == "desc" {
				return reverse(es)
			}
			return es
		}
		hs := make([]int64, 0, len(byHeight))
		for h := range byHeight {
			hs = append(hs, h)
		}
		sort.Slice(hs, func(i, j int) bool { return hs[i] < hs[j] })
		for n, h := range hs {
			if n > 6 {
				break
			}
			for _, pp := range pageSizes {
				hh, ppp := h, pp
				s.pageThrough(when, "height/"+dir, pp, order(byHeight[h]), func(page int) (*ctypes.ResultTxSearch, error) {
					return app.QueryBlockTxs(hh, page, ppp, false, dir)
				})
			}
		}
		for n, a := range sortedAddrs(bySigner) {
			if n > 5 {
				break
			}
			for _, pp := range pageSizes {
				aa, ppp := a, pp
				s.pageThrough(when, "signer/"+dir, pp, order(bySigner[a]), func(page int) (*ctypes.ResultTxSearch, error) {
					return app.QueryAccountTxs(aa, page, ppp, false, dir, 0)
				})
			}
		}
		for n, a := range sortedAddrs(byRecipient) {
			if n > 5 {
				break
			}
			for _, pp := range pageSizes {
				aa, ppp := a, pp
				s.pageThrough(when, "recipient/"+dir, pp, order(byRecipient[a]), func(page int) (*ctypes.ResultTxSearch, error) {
					return app.QueryRecipientTxs(aa, page, ppp, false, dir, 0)
				})
			}
		}
	}
	// search by hash: exactly the indexed transaction, and nothing for a hash that is not indexed
	for n, e := range model {
		if n > 4 {
			break
		}
		if e.stale {
			continue // (the recorded stale-entry finding is judged by the sweeps above)
		}
		r, err := txSearch(s.node, fmt.Sprintf("tx.hash='%X'", e.hash), false, 1, 30, "asc")
		if err != nil || r.TotalCount != 1 || len(r.Txs) != 1 || r.Txs[0] == nil || r.Txs[0].Height != e.height {
			s.violate("C42", "hash-search-misses-indexed-tx", "hash", fmt.Sprintf("%s: search by hash %X (indexed at height %d): err=%v result=%+v", when, e.hash, e.atHeight, err, r))
		}
	}
	for _, probe := range [][]byte{bytes.Repeat([]byte{0xAB}, 32), bytes.Repeat([]byte{0x01}, 32)} {
		r, err := txSearch(s.node, fmt.Sprintf("tx.hash='%X'", probe), false, 1, 30, "asc")
		if err == nil && (r.TotalCount != 0 || len(r.Txs) != 0) {
			s.violate("C42", "hash-search-reports-unindexed-tx", "hash", fmt.Sprintf("%s: search by a hash that was never indexed reports total %d with %d entries (first entry nil: %v)", when, r.TotalCount, len(r.Txs), len(r.Txs) > 0 && r.Txs[0] == nil))
		}
		s.res.Probe("hash_search_for_unindexed_tx")
	}
	s.res.Probe("search_sweeps")
	s.res.Case(fmt.Sprintf("search/%s/indexed=%d/signers=%d/recipients=%d", when[:minInt(len(when), 8)], len(model), len(bySigner), len(byRecipient)))
}
