package chainsim

import (
	"context"

	tmquery "github.com/tendermint/tendermint/libs/pubsub/query"
	ctypes "github.com/tendermint/tendermint/rpc/core/types"
)

// txSearch mirrors rpc/core.TxSearch of the pokt tendermint fork (page validation included).
func txSearch(n *Node, query string, prove bool, page, perPage int, orderBy string) (*ctypes.ResultTxSearch, error) {
	q, err := tmquery.New(query)
	if err != nil {
		return nil, err
	}
	if perPage < 1 {
		perPage = 30
	} else if perPage > 100 {
		perPage = 100
	}
	if page < 1 {
		page = 1
	}
	skip := (page - 1) * perPage
	if skip < 0 {
		skip = 0
	}
	q.AddPage(perPage, skip, orderBy)
	results, total, err := n.Indexer.Search(context.Background(), q)
	if err != nil {
		return nil, err
	}
	out := make([]*ctypes.ResultTx, 0)
	for _, r := range results {
		if r == nil {
			out = append(out, nil)
			continue
		}
		out = append(out, &ctypes.ResultTx{Hash: r.Tx.Hash(), Height: r.Height, Index: r.Index, TxResult: r.Result, Tx: r.Tx})
	}
	return &ctypes.ResultTxSearch{Txs: out, TotalCount: total}, nil
}
