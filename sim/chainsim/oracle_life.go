package chainsim

// Staking life-cycle oracles on phase diffs: C23 (edit-stake immutability), C24 (unstaking),
// C25 (slashing/jailing/unjail), C26 (fee distribution in BeginBlock), C28 (application
// admission and transfer), plus supply attribution for C17.

import (
	"bytes"
	"fmt"
	"math/big"
	"sort"
	"strconv"
	"strings"
	"time"

	"github.com/pokt-network/pocket-core/codec"
	sdk "github.com/pokt-network/pocket-core/types"
	appsTypes "github.com/pokt-network/pocket-core/x/apps/types"
	authTypes "github.com/pokt-network/pocket-core/x/auth/types"
	govTypes "github.com/pokt-network/pocket-core/x/gov/types"
	nodesTypes "github.com/pokt-network/pocket-core/x/nodes/types"
	abci "github.com/tendermint/tendermint/abci/types"
)

func sortedAddrs[T any](m map[string]T) []string {
	out := make([]string, 0, len(m))
	for k := range m {
		out = append(out, k)
	}
	sort.Strings(out)
	return out
}

func accountDeltas(vb, va *View) map[string]sdk.BigInt {
	out := map[string]sdk.BigInt{}
	for a := range vb.Accounts {
		if d := va.Balance(a).Sub(vb.Balance(a)); !d.IsZero() {
			out[a] = d
		}
	}
	for a := range va.Accounts {
		if _, ok := vb.Accounts[a]; !ok {
			if d := va.Balance(a); !d.IsZero() {
				out[a] = d
			}
		}
	}
	return out
}

// ---------------------------------------------------------------- BeginBlock

func (s *Sim) checkBegin(b *blockObs, before, after *Dump) {
	h := b.spec.Height
	if h <= s.cfg.UpgradeHeight {
		return // warm-up blocks run through the legacy codec upgrade; oracles start in the current era
	}
	vb, va := before.View(), after.View()
	deltas := accountDeltas(vb, va)
	feeAddr := ModuleAddr(authTypes.FeeCollectorName)
	daoAddr := ModuleAddr(govTypes.DAOAccountName)
	poolAddr := ModuleAddr(nodesTypes.StakedPoolName)

	// ---- C25: slashing burns exactly what it removes, never more than the stake
	removed := sdk.ZeroInt()
	slashed := 0
	for _, addr := range sortedAddrs(vb.Validators) {
		pv := vb.Validators[addr]
		nv, ok := va.Validators[addr]
		if !ok {
			// a record may only disappear in BeginBlock through the legacy force-unstake path
			continue
		}
		if nv.StakedTokens.GT(pv.StakedTokens) {
			s.violate("C25", "stake-grew-in-begin-block", "slash", fmt.Sprintf("height %d: node %s stake %s -> %s during BeginBlock", h, addr, pv.StakedTokens, nv.StakedTokens))
		}
		if nv.StakedTokens.LT(pv.StakedTokens) {
			cut := pv.StakedTokens.Sub(nv.StakedTokens)
			removed = removed.Add(cut)
			slashed++
			s.res.Probe("slash_applied")
			if nv.StakedTokens.IsNegative() {
				s.violate("C25", "slash-exceeds-stake", "slash", fmt.Sprintf("height %d: node %s stake %s -> %s", h, addr, pv.StakedTokens, nv.StakedTokens))
			}
			minStake, _ := va.ParamInt("pos/StakeMinimum")
			if featureOn(codec.NonCustodialUpdateKey, h) && nv.StakedTokens.LT(sdk.NewInt(minStake)) && nv.Status == sdk.Staked {
				s.res.Probe("slash_below_minimum")
				if !nv.Jailed {
					s.violate("C25", "below-minimum-not-jailed", "slash", fmt.Sprintf("height %d: node %s slashed to %s (minimum %d) is not jailed", h, addr, nv.StakedTokens, minStake))
				}
				if !va.Waiting[addr] {
					s.violate("C25", "below-minimum-not-queued", "slash", fmt.Sprintf("height %d: node %s slashed to %s (minimum %d) is not queued to unstake", h, addr, nv.StakedTokens, minStake))
				}
			}
			if pv.Status == sdk.Unstaking {
				s.res.Probe("slash_while_unstaking")
			}
		}
		if !pv.Jailed && nv.Jailed {
			s.res.Probe("jailed_in_begin_block")
			if pv.Status == sdk.Unstaking {
				s.res.Probe("jail_while_unstaking")
			}
			// the simulator keeps its own record of when the jail period ends (C25: a later unjail is
			// judged against this record, not against whatever the store says by then)
			psi, had := vb.Signing[addr]
			nsi := va.Signing[addr]
			downtime := had && psi.MissedBlocksCounter > 0 && nsi.MissedBlocksCounter == 0 && !nv.StakedTokens.Equal(pv.StakedTokens)
			// a double-sign slash that takes the stake below the minimum jails too (without a jail
			// period), and at a window boundary the missed-block counter is reset in the same block:
			// a node named by this block's evidence is not judged as a downtime jailing
			for _, ev := range b.spec.Evidence {
				if sdk.Address(ev.Validator.Address).String() == addr {
					downtime = false
					s.res.Probe("jailed_in_a_block_whose_evidence_names_it")
				}
			}
			if downtime {
				if raw, ok := vb.Params["pos/DowntimeJailDuration"]; ok {
					if ns, err := strconv.ParseInt(strings.Trim(raw, `"`), 10, 64); err == nil {
						end := b.spec.Time.Add(time.Duration(ns))
						if s.jailEnd == nil {
							s.jailEnd = map[string]time.Time{}
						}
						s.jailEnd[addr] = end
						if !nsi.JailedUntil.Equal(end) {
							s.violate("C25", "jail-period-not-set", "downtime", fmt.Sprintf("height %d: node %s jailed for downtime at block time %s with a jail duration of %s is recorded as jailed until %s", h, addr, b.spec.Time, time.Duration(ns), nsi.JailedUntil))
						}
						s.res.Probe("downtime_jail_period_recorded")
					}
				}
			}
		}
		if pv.Jailed && !nv.Jailed {
			s.violate("C25", "unjailed-without-request", "begin-block", fmt.Sprintf("height %d: node %s left jail during BeginBlock", h, addr))
		}
	}
	supplyDelta := va.SupplyAmt.Sub(vb.SupplyAmt)
	if !supplyDelta.Equal(removed.Neg()) {
		s.violate("C25", "burn-vs-removed", "slash", fmt.Sprintf("height %d: BeginBlock removed %s tokens from %d nodes but the supply changed by %s", h, removed, slashed, supplyDelta))
		s.violate("C17", "supply-change-unattributed", "begin-block", fmt.Sprintf("height %d: supply changed by %s in BeginBlock, slashing removed %s", h, supplyDelta, removed))
	}
	pd := sdk.ZeroInt()
	if d, ok := deltas[poolAddr]; ok {
		pd = d
	}
	if !pd.Equal(removed.Neg()) {
		s.violate("C25", "pool-vs-removed", "slash", fmt.Sprintf("height %d: BeginBlock removed %s tokens from nodes, the node pool changed by %s", h, removed, pd))
	}

	// ---- C26: fee distribution moves the collected fees to the DAO and the proposer side, sum zero
	fees := vb.Balance(feeAddr)
	fd := va.Balance(feeAddr).Sub(fees)
	sum := sdk.ZeroInt()
	for a, d := range deltas {
		if a == poolAddr {
			continue
		}
		sum = sum.Add(d)
	}
	if !sum.IsZero() {
		s.violate("C26", "fee-distribution-not-conserving", "begin-block", fmt.Sprintf("height %d: account changes in BeginBlock (without the slashed pool) sum to %s: %v", h, sum, deltas))
	}
	if !fd.IsZero() {
		daoPct, _ := vb.ParamInt("pos/DAOAllocation")
		propPct, _ := vb.ParamInt("pos/ProposerPercentage")
		out := fd.Neg()
		if out.IsNegative() {
			s.violate("C26", "fee-collector-grew-in-begin-block", "begin-block", fmt.Sprintf("height %d: fee collector %s -> %s", h, fees, va.Balance(feeAddr)))
		}
		if daoPct+propPct > 0 {
			// DAO share = floor(fees * dao/(dao+proposer)); checked with exact rational arithmetic
			num := new(big.Int).Mul(fees.BigInt(), big.NewInt(daoPct))
			wantDao := sdk.NewIntFromBigInt(num.Quo(num, big.NewInt(daoPct+propPct)))
			gotDao := va.Balance(daoAddr).Sub(vb.Balance(daoAddr))
			// decimal truncation in the implementation may lose at most one unit against the exact floor
			if dd := gotDao.Sub(wantDao); dd.GT(sdk.OneInt()) || dd.LT(sdk.OneInt().Neg()) {
				s.violate("C26", "dao-share-of-fees", "begin-block", fmt.Sprintf("height %d: fees %s, allocations dao %d proposer %d: DAO received %s, expected %s", h, fees, daoPct, propPct, gotDao, wantDao))
			}
		}
		for a, d := range deltas {
			if d.IsNegative() && a != feeAddr && a != poolAddr {
				s.violate("C26", "fee-distribution-debits-account", "begin-block", fmt.Sprintf("height %d: account %s lost %s during BeginBlock", h, a, d))
			}
		}
		// the proposer's part goes to the previous block's proposer: its reward delegators receive
		// floor(part * share / 100) each and the node's output address (or the operator of a node
		// without one) the remainder
		if featureOn(codec.NonCustodialUpdateKey, h) {
			var prev []byte
			for _, spec := range s.drv.Log {
				if spec.Height == h-1 {
					prev = spec.Proposer
				}
			}
			gotDao := va.Balance(daoAddr).Sub(vb.Balance(daoAddr))
			cut := out.Sub(gotDao)
			if pvz, ok := vb.Validators[sdk.Address(prev).String()]; ok && prev != nil && cut.IsPositive() {
				want := map[string]sdk.BigInt{}
				dels := pvz.RewardDelegators
				if !featureOn(codec.RewardDelegatorsKey, h) {
					dels = nil
				}
				total := uint32(0)
				for _, sh := range dels {
					total += sh
				}
				remains := cut
				if total <= 100 {
					for _, a := range sortedAddrs(dels) {
						alloc := sdk.NewIntFromBigInt(new(big.Int).Quo(new(big.Int).Mul(cut.BigInt(), big.NewInt(int64(dels[a]))), big.NewInt(100)))
						if alloc.IsPositive() {
							if c, ok := want[a]; ok {
								want[a] = c.Add(alloc)
							} else {
								want[a] = alloc
							}
						}
						remains = remains.Sub(alloc)
					}
					primary := sdk.Address(prev).String()
					if pvz.OutputAddress != nil {
						primary = pvz.OutputAddress.String()
					}
					if remains.IsPositive() {
						if c, ok := want[primary]; ok {
							want[primary] = c.Add(remains)
						} else {
							want[primary] = remains
						}
					}
					for a, d := range deltas {
						if a == feeAddr || a == daoAddr || a == poolAddr {
							continue
						}
						w, ok := want[a]
						if !ok {
							w = sdk.ZeroInt()
						}
						if !d.Equal(w) {
							s.violate("C26", "proposer-cut-split", "begin-block", fmt.Sprintf("height %d: proposer part %s of fees %s for node %s (delegators %v, output %s): account %s received %s, expected %s", h, cut, fees, sdk.Address(prev), dels, pvz.OutputAddress, a, d, w))
							break
						}
					}
					for a, w := range want {
						if d, ok := deltas[a]; (!ok && w.IsPositive()) || (ok && a != daoAddr && a != feeAddr && !d.Equal(w)) {
							s.violate("C26", "proposer-cut-split", "begin-block", fmt.Sprintf("height %d: proposer part %s for node %s (delegators %v): account %s received %v, expected %s", h, cut, sdk.Address(prev), dels, a, deltas[a], w))
							break
						}
					}
					s.res.Probe("proposer_cut_split_checked")
					if len(dels) > 1 {
						s.res.Probe("proposer_cut_split_with_several_delegators")
					}
				}
			}
		}
		s.res.Probe("fees_distributed")
		s.res.Case(fmt.Sprintf("feesplit/dao=%d/prop=%d/recipients=%d", daoPct, propPct, len(deltas)))
	} else {
		for a, d := range deltas {
			if a != poolAddr {
				s.violate("C26", "funds-moved-without-fees", "begin-block", fmt.Sprintf("height %d: account %s changed by %s in BeginBlock although the fee collector did not change", h, a, d))
			}
		}
	}
	// applications are never touched by BeginBlock
	for _, addr := range sortedAddrs(vb.Apps) {
		pa := vb.Apps[addr]
		if na, ok := va.Apps[addr]; !ok || na.Status != pa.Status || !na.StakedTokens.Equal(pa.StakedTokens) {
			s.violate("C24", "app-changed-in-begin-block", "application", fmt.Sprintf("height %d: application %s changed during BeginBlock", h, addr))
		}
	}
	// node status may only change from Staked in EndBlock
	for _, addr := range sortedAddrs(vb.Validators) {
		pv := vb.Validators[addr]
		if nv, ok := va.Validators[addr]; ok && pv.Status != nv.Status {
			s.violate("C24", "status-changed-in-begin-block", "node", fmt.Sprintf("height %d: node %s status %d -> %d during BeginBlock", h, addr, pv.Status, nv.Status))
		}
	}
}

// ---------------------------------------------------------------- EndBlock

func (s *Sim) checkEnd(b *blockObs, r abci.ResponseEndBlock, before, after *Dump) {
	h := b.spec.Height
	if h <= s.cfg.UpgradeHeight {
		return
	}
	now := b.spec.Time
	vb, va := before.View(), after.View()
	deltas := accountDeltas(vb, va)
	nodePool := ModuleAddr(nodesTypes.StakedPoolName)
	appPool := ModuleAddr(appsTypes.StakedPoolName)
	want := map[string]sdk.BigInt{}
	credit := func(addr string, amt sdk.BigInt) {
		if cur, ok := want[addr]; ok {
			want[addr] = cur.Add(amt)
		} else {
			want[addr] = amt
		}
	}
	bps, _ := vb.ParamInt("pos/BlocksPerSession")
	for _, addr := range sortedAddrs(vb.Validators) {
		pv := vb.Validators[addr]
		nv, still := va.Validators[addr]
		switch {
		case pv.Status == sdk.Staked && still && nv.Status == sdk.Unstaking:
			// C24: leaves the staked state only at a session boundary, after a request or a forced unstake
			s.res.Probe("node_began_unstaking")
			if bps > 0 && h%bps != 0 {
				s.violate("C24", "unstake-not-at-session-boundary", "node", fmt.Sprintf("height %d (blocks per session %d): node %s moved to unstaking", h, bps, addr))
			}
			maxJailed, _ := vb.ParamInt("pos/MaxJailedBlocks")
			forcedNow := pv.Jailed && vb.Signing[addr].JailedBlocksCounter+1 > maxJailed
			if forcedNow {
				s.res.Probe("forced_unstake_and_release_same_block")
			}
			if !vb.Waiting[addr] && !forcedNow {
				s.violate("C24", "unstake-without-request", "node", fmt.Sprintf("height %d: node %s moved to unstaking without being in the waiting set", h, addr))
			}
			// the waiting entry must belong to this record of the node: an entry older than the record
			// is what an earlier stake of the same key left behind (own record of both ages)
			if ws, ok := s.waitingSince[addr]; ok && vb.Waiting[addr] && !forcedNow {
				ns, known := s.nodeSince[addr]
				if !known {
					ns = h // the record was created in this very block
				}
				if ws < ns {
					s.violate("C24", "unstake-without-request", "waiting-entry-older-than-the-node-record", fmt.Sprintf("height %d: node %s (record since height %d) was moved to unstaking by a waiting entry that exists since height %d; this record never asked to unstake", h, addr, ns, ws))
				}
			}
			if nv.UnstakingCompletionTime.Before(now) {
				s.violate("C24", "completion-time-in-the-past", "node", fmt.Sprintf("height %d: node %s completion time %s, block time %s", h, addr, nv.UnstakingCompletionTime, now))
			}
			if pv.Jailed {
				s.res.Probe("jailed_node_began_unstaking")
			}
		case pv.Status == sdk.Unstaking && !still:
			s.res.Probe("node_finished_unstaking")
			if pv.UnstakingCompletionTime.After(now) {
				s.violate("C24", "stake-returned-early", "node", fmt.Sprintf("height %d: node %s paid out at %s, due %s", h, addr, now, pv.UnstakingCompletionTime))
			}
			out := addr
			if pv.OutputAddress != nil {
				out = pv.OutputAddress.String()
			}
			credit(out, pv.StakedTokens)
			credit(nodePool, pv.StakedTokens.Neg())
		case pv.Status == sdk.Unstaking && still && nv.Status == sdk.Unstaking:
			if !pv.UnstakingCompletionTime.After(now) {
				s.violate("C24", "stake-not-returned-when-due", "node", fmt.Sprintf("height %d: node %s was due %s, block time %s, still unstaking", h, addr, pv.UnstakingCompletionTime, now))
			}
			if !nv.StakedTokens.Equal(pv.StakedTokens) {
				s.violate("C24", "stake-changed-in-end-block", "node", fmt.Sprintf("height %d: unstaking node %s stake %s -> %s", h, addr, pv.StakedTokens, nv.StakedTokens))
			}
		case pv.Status == sdk.Staked && !still:
			s.violate("C24", "staked-node-vanished", "node", fmt.Sprintf("height %d: staked node %s disappeared in EndBlock", h, addr))
		case still && pv.Status != nv.Status:
			s.violate("C24", "unexpected-status-change", "node", fmt.Sprintf("height %d: node %s status %d -> %d in EndBlock", h, addr, pv.Status, nv.Status))
		}
	}
	for _, addr := range sortedAddrs(vb.Apps) {
		pa := vb.Apps[addr]
		na, still := va.Apps[addr]
		switch {
		case pa.Status == sdk.Unstaking && !still:
			s.res.Probe("app_finished_unstaking")
			if pa.UnstakingCompletionTime.After(now) {
				s.violate("C24", "stake-returned-early", "application", fmt.Sprintf("height %d: application %s paid out at %s, due %s", h, addr, now, pa.UnstakingCompletionTime))
			}
			credit(addr, pa.StakedTokens)
			credit(appPool, pa.StakedTokens.Neg())
		case pa.Status == sdk.Unstaking && still && na.Status == sdk.Unstaking:
			if !pa.UnstakingCompletionTime.After(now) && !pa.Jailed {
				s.violate("C24", "stake-not-returned-when-due", "application", fmt.Sprintf("height %d: application %s was due %s, block time %s, still unstaking", h, addr, pa.UnstakingCompletionTime, now))
			}
		case !still || pa.Status != na.Status:
			s.violate("C24", "unexpected-status-change", "application", fmt.Sprintf("height %d: application %s changed status in EndBlock", h, addr))
		}
	}
	// exactly the due stakes move, exactly once
	for a, d := range deltas {
		w, ok := want[a]
		if !ok {
			s.violate("C24", "end-block-moves-other-funds", "payout", fmt.Sprintf("height %d: account %s changed by %s in EndBlock with no stake due to it", h, a, d))
		} else if !w.Equal(d) {
			s.violate("C24", "payout-amount", "payout", fmt.Sprintf("height %d: account %s changed by %s in EndBlock, stakes due to it: %s", h, a, d, w))
		}
	}
	for a, w := range want {
		if _, ok := deltas[a]; !ok && !w.IsZero() {
			s.violate("C24", "payout-missing", "payout", fmt.Sprintf("height %d: %s was due %s in EndBlock and did not change", h, a, w))
		}
	}
	if !va.SupplyAmt.Equal(vb.SupplyAmt) {
		s.violate("C17", "supply-change-unattributed", "end-block", fmt.Sprintf("height %d: supply changed by %s in EndBlock", h, va.SupplyAmt.Sub(vb.SupplyAmt)))
	}
	if len(want) > 0 {
		s.res.Case(fmt.Sprintf("payout/n=%d", len(want)/2))
	}
}

// ---------------------------------------------------------------- node transactions

func delegatorsEqual(a, b map[string]uint32) bool {
	if len(a) != len(b) {
		return false
	}
	for k, v := range a {
		if b[k] != v {
			return false
		}
	}
	return true
}

func (s *Sim) checkNodeTx(t *txCtx, changed bool) {
	if !changed {
		return
	}
	rec := t.rec
	h := t.h
	target := s.key(rec.Step.From).String()
	pv, existed := t.vb.Validators[target]
	nv, exists := t.va.Validators[target]
	// no other node record may change
	for _, addr := range sortedAddrs(t.vb.Validators) {
		if addr == target {
			continue
		}
		a, b := t.vb.Validators[addr], t.va.Validators[addr]
		if !a.StakedTokens.Equal(b.StakedTokens) || a.Status != b.Status || a.Jailed != b.Jailed || !a.OutputAddress.Equals(b.OutputAddress) {
			s.violate("C23", "tx-changed-another-node", rec.Step.Kind, fmt.Sprintf("height %d: tx id %d targeting %s changed node %s", h, rec.Step.ID, target, addr))
		}
	}
	// ---- C14: the message took effect on the node record only if the signer is the operator or
	// the node's (current, for an existing node; declared, for a new one) output address. A key
	// that merely names itself in the message (MsgStake lists its Output among the signers) is a
	// declared signer for the ante handler but has no authority over an existing node.
	recordChanged := existed != exists
	if existed && exists {
		recordChanged = !nv.StakedTokens.Equal(pv.StakedTokens) || !nv.OutputAddress.Equals(pv.OutputAddress) || !delegatorsEqual(nv.RewardDelegators, pv.RewardDelegators) ||
			fmt.Sprint(nv.Chains) != fmt.Sprint(pv.Chains) || nv.ServiceURL != pv.ServiceURL || nv.Status != pv.Status || nv.Jailed != pv.Jailed || !nv.UnstakingCompletionTime.Equal(pv.UnstakingCompletionTime)
	}
	if recordChanged || t.vb.Waiting[target] != t.va.Waiting[target] {
		ncust := featureOn(codec.NonCustodialUpdateKey, h)
		authorised := rec.SignAddr == target
		if existed {
			if ncust && pv.OutputAddress != nil && pv.OutputAddress.String() == rec.SignAddr {
				authorised = true
			}
		} else if rec.Step.Kind == "node_stake" && ncust && rec.Step.Output >= 0 && s.key(rec.Step.Output).String() == rec.SignAddr {
			authorised = true
		}
		if !authorised {
			s.violate("C14", "message-effect-by-unauthorised-signer", rec.Step.Kind, fmt.Sprintf("height %d: tx id %d (%s) signed by %s changed node %s (existing: %v, current output %s); the signer is neither the operator nor that output address", h, rec.Step.ID, rec.Step.Kind, rec.SignAddr, target, existed, pv.OutputAddress))
		}
		s.res.Case(fmt.Sprintf("node-effect/%s/existing=%v/signer-is-operator=%v", rec.Step.Kind, existed, rec.SignAddr == target))
	}
	if rec.Step.Kind == "node_stake" && existed && pv.Jailed {
		if _, jailedForDowntime := s.jailEnd[target]; jailedForDowntime {
			if s.jailEdited == nil {
				s.jailEdited = map[string]bool{}
			}
			s.jailEdited[target] = true
		}
	}
	switch rec.Step.Kind {
	case "node_stake":
		if existed && pv.Status == sdk.Staked {
			// ---- C23: edit-stake immutability
			if !exists {
				s.violate("C23", "edit-removed-record", "node", fmt.Sprintf("height %d: edit-stake id %d removed node %s", h, rec.Step.ID, target))
				return
			}
			same := nv.StakedTokens.Equal(pv.StakedTokens) && nv.OutputAddress.Equals(pv.OutputAddress) && delegatorsEqual(nv.RewardDelegators, pv.RewardDelegators) &&
				fmt.Sprint(nv.Chains) == fmt.Sprint(pv.Chains) && nv.ServiceURL == pv.ServiceURL
			if t.vb.Waiting[target] && !same {
				s.violate("C23", "edit-while-waiting-to-unstake", "node", fmt.Sprintf("height %d: edit-stake id %d changed node %s which is waiting to unstake", h, rec.Step.ID, target))
			}
			if t.vb.Waiting[target] {
				s.res.Probe("edit_attempt_while_waiting")
			}
			if nv.StakedTokens.LT(pv.StakedTokens) {
				s.violate("C23", "edit-lowered-stake", "node", fmt.Sprintf("height %d: edit-stake id %d lowered node %s stake %s -> %s", h, rec.Step.ID, target, pv.StakedTokens, nv.StakedTokens))
			}
			if !bytes.Equal(nv.Address, pv.Address) || !nv.PublicKey.Equals(pv.PublicKey) || nv.Jailed != pv.Jailed || nv.Status != pv.Status {
				s.violate("C23", "edit-changed-immutable-field", "node", fmt.Sprintf("height %d: edit-stake id %d changed address/key/jailed/status of node %s (jailed %v->%v status %d->%d)", h, rec.Step.ID, target, pv.Jailed, nv.Jailed, pv.Status, nv.Status))
			}
			if !nv.OutputAddress.Equals(pv.OutputAddress) {
				s.res.Probe("output_address_changed")
				// a node without an output address (custodial) is its own output: the operator may set one
				curOut := target
				if pv.OutputAddress != nil {
					curOut = pv.OutputAddress.String()
				}
				if pv.OutputAddress == nil {
					s.res.Probe("output_address_set_on_custodial_node")
				}
				if rec.SignAddr != curOut || (pv.OutputAddress != nil && !featureOn(codec.OutputAddressEditKey, h)) {
					s.violate("C23", "output-address-changed-by-wrong-signer", "node", fmt.Sprintf("height %d: edit-stake id %d signed by %s changed node %s output address %s -> %s (OEDIT active: %v)", h, rec.Step.ID, rec.SignAddr, target, pv.OutputAddress, nv.OutputAddress, featureOn(codec.OutputAddressEditKey, h)))
				}
			}
			if !delegatorsEqual(nv.RewardDelegators, pv.RewardDelegators) {
				s.res.Probe("reward_delegators_changed")
				if rec.SignAddr != target || !featureOn(codec.RewardDelegatorsKey, h) {
					s.violate("C23", "delegators-changed-by-wrong-signer", "node", fmt.Sprintf("height %d: edit-stake id %d signed by %s changed node %s reward delegators (feature active: %v)", h, rec.Step.ID, rec.SignAddr, target, featureOn(codec.RewardDelegatorsKey, h)))
				}
			}
			if nv.Jailed {
				s.res.Probe("edit_stake_of_jailed_node")
			}
			if nv.StakedTokens.GT(pv.StakedTokens) {
				s.res.Probe("edit_stake_bump")
			}
			s.res.Case(fmt.Sprintf("edit/%v/%v/%v", nv.StakedTokens.GT(pv.StakedTokens), !nv.OutputAddress.Equals(pv.OutputAddress), !delegatorsEqual(nv.RewardDelegators, pv.RewardDelegators)))
		} else if existed {
			// unstaking / unstaked record: a stake message must not touch it
			if exists && (!nv.StakedTokens.Equal(pv.StakedTokens) || nv.Status != pv.Status) {
				s.violate("C24", "stake-on-unstaking-node-accepted", "node", fmt.Sprintf("height %d: stake id %d changed node %s in status %d", h, rec.Step.ID, target, pv.Status))
			}
		} else if exists {
			s.res.Probe("new_node_staked")
			minStake, _ := t.vb.ParamInt("pos/StakeMinimum")
			if nv.StakedTokens.LT(sdk.NewInt(minStake)) {
				s.violate("C25", "node-staked-below-minimum", "stake", fmt.Sprintf("height %d: node %s staked with %s, minimum %d", h, target, nv.StakedTokens, minStake))
			}
		}
	case "node_unstake":
		// the request only queues the node; status changes belong to EndBlock
		if existed && exists && pv.Status != nv.Status {
			s.violate("C24", "unstake-effective-before-session-end", "node", fmt.Sprintf("height %d: begin-unstake id %d changed node %s status %d -> %d immediately", h, rec.Step.ID, target, pv.Status, nv.Status))
		}
		if !t.vb.Waiting[target] && t.va.Waiting[target] {
			s.res.Probe("node_unstake_requested")
		}
	case "node_unjail":
		if existed && exists && pv.Jailed && !nv.Jailed {
			s.res.Probe("node_unjailed")
			// ---- C25: unjail only by an authorised signer, with minimum stake, after the jail period in block time
			authorised := rec.SignAddr == target || (pv.OutputAddress != nil && rec.SignAddr == pv.OutputAddress.String())
			if !authorised {
				s.violate("C25", "unjailed-by-unrelated-signer", "unjail", fmt.Sprintf("height %d: unjail id %d signed by %s (node %s, output %s) took effect", h, rec.Step.ID, rec.SignAddr, target, pv.OutputAddress))
			}
			minStake, _ := t.vb.ParamInt("pos/StakeMinimum")
			if pv.StakedTokens.LT(sdk.NewInt(minStake)) {
				s.violate("C25", "unjailed-below-minimum-stake", "unjail", fmt.Sprintf("height %d: node %s unjailed with stake %s, minimum %d", h, target, pv.StakedTokens, minStake))
			}
			if end, ok := s.jailEnd[target]; ok {
				if t.blockTime.Before(end) {
					subj := "no-edit-since-jailing"
					if s.jailEdited[target] {
						subj = "after-edit-stake"
					}
					s.violate("C25", "unjailed-before-jail-end", subj, fmt.Sprintf("height %d: node %s unjailed at block time %s; it was jailed for downtime until %s", h, target, t.blockTime, end))
				}
				delete(s.jailEnd, target)
				delete(s.jailEdited, target)
				s.res.Probe("unjail_judged_against_own_record")
			}
			if si, ok := t.vb.Signing[target]; ok && t.blockTime.Before(si.JailedUntil) {
				s.violate("C25", "unjailed-before-jail-end", "unjail", fmt.Sprintf("height %d: node %s unjailed at block time %s, jailed until %s", h, target, t.blockTime, si.JailedUntil))
			}
		}
	}
}

// ---------------------------------------------------------------- application transactions

func (s *Sim) checkAppTx(t *txCtx, changed bool) {
	if !changed {
		return
	}
	rec := t.rec
	h := t.h
	named := s.key(rec.Step.From).String() // the key the message names
	poolDelta := t.delta(ModuleAddr(appsTypes.StakedPoolName))
	// which application records changed?
	var touched []string
	all := map[string]bool{}
	for a := range t.vb.Apps {
		all[a] = true
	}
	for a := range t.va.Apps {
		all[a] = true
	}
	for _, a := range sortedAddrs(all) {
		pa, e1 := t.vb.Apps[a]
		na, e2 := t.va.Apps[a]
		if e1 != e2 || !pa.StakedTokens.Equal(na.StakedTokens) || pa.Status != na.Status || pa.Jailed != na.Jailed || !pa.MaxRelays.Equal(na.MaxRelays) || fmt.Sprint(pa.Chains) != fmt.Sprint(na.Chains) {
			touched = append(touched, a)
		}
	}
	switch rec.Step.Kind {
	case "app_stake":
		isTransfer := rec.Step.Amount == 0 && len(rec.Step.Chains) == 0
		if isTransfer {
			if len(touched) == 0 {
				return
			}
			// ---- C28: transfer keeps stake and allowance, removes the old record, only if signed by the current app
			old := rec.SignAddr
			pa, wasApp := t.vb.Apps[old]
			na, nowApp := t.va.Apps[named]
			_, oldStill := t.va.Apps[old]
			if !wasApp || pa.Status != sdk.Staked {
				s.violate("C28", "transfer-by-non-application", "transfer", fmt.Sprintf("height %d: transfer id %d signed by %s, which is not a staked application, changed application records %v", h, rec.Step.ID, old, touched))
				return
			}
			if prevRec, hadRecord := t.vb.Apps[named]; hadRecord && named != old {
				s.violate("C28", "transfer-onto-existing-application", fmt.Sprintf("target-status-%d", prevRec.Status), fmt.Sprintf("height %d: transfer id %d %s -> %s took effect although %s already had an application record (status %d, stake %s), which it overwrote", h, rec.Step.ID, old, named, named, prevRec.Status, prevRec.StakedTokens))
				return
			}
			if !nowApp || oldStill {
				s.violate("C28", "transfer-incomplete", "transfer", fmt.Sprintf("height %d: transfer id %d %s -> %s: new record present %v, old record still present %v", h, rec.Step.ID, old, named, nowApp, oldStill))
				return
			}
			if !na.StakedTokens.Equal(pa.StakedTokens) || !na.MaxRelays.Equal(pa.MaxRelays) || fmt.Sprint(na.Chains) != fmt.Sprint(pa.Chains) || na.Status != sdk.Staked {
				s.violate("C28", "transfer-changed-stake-or-allowance", "transfer", fmt.Sprintf("height %d: transfer id %d: stake %s -> %s, allowance %s -> %s, chains %v -> %v", h, rec.Step.ID, pa.StakedTokens, na.StakedTokens, pa.MaxRelays, na.MaxRelays, pa.Chains, na.Chains))
			}
			if !poolDelta.IsZero() {
				s.violate("C20", "transfer-changed-pool", "transfer", fmt.Sprintf("height %d: transfer id %d changed the application pool by %s", h, rec.Step.ID, poolDelta))
			}
			for _, a := range touched {
				if a != old && a != named {
					s.violate("C28", "transfer-touched-third-application", "transfer", fmt.Sprintf("height %d: transfer id %d changed application %s", h, rec.Step.ID, a))
				}
			}
			s.res.Probe("app_transferred")
			s.res.Case("apptransfer/ok")
			return
		}
		pa, existed := t.vb.Apps[named]
		na, exists := t.va.Apps[named]
		for _, a := range touched {
			if a != named {
				s.violate("C28", "stake-touched-other-application", "stake", fmt.Sprintf("height %d: app stake id %d for %s changed application %s", h, rec.Step.ID, named, a))
			}
		}
		if !exists {
			if existed {
				s.violate("C28", "stake-removed-application", "stake", fmt.Sprintf("height %d: app stake id %d removed application %s", h, rec.Step.ID, named))
			}
			return
		}
		minStake, _ := t.vb.ParamInt("application/ApplicationStakeMinimum")
		maxChains, _ := t.vb.ParamInt("application/MaximumChains")
		maxApps, _ := t.vb.ParamInt("application/MaxApplications")
		base, _ := t.vb.ParamInt("application/BaseRelaysPerPOKT")
		stab, _ := t.vb.ParamInt("application/StabilityAdjustment")
		if existed && pa.Status == sdk.Staked {
			// ---- C23 for applications
			if na.StakedTokens.LT(pa.StakedTokens) {
				s.violate("C23", "edit-lowered-stake", "application", fmt.Sprintf("height %d: app edit id %d lowered stake %s -> %s", h, rec.Step.ID, pa.StakedTokens, na.StakedTokens))
			}
			if !bytes.Equal(na.Address, pa.Address) || !na.PublicKey.Equals(pa.PublicKey) || na.Jailed != pa.Jailed || na.Status != pa.Status {
				s.violate("C23", "edit-changed-immutable-field", "application", fmt.Sprintf("height %d: app edit id %d changed address/key/jailed/status of %s", h, rec.Step.ID, named))
			}
			if rec.SignAddr != named {
				s.violate("C28", "application-edited-by-other-key", "stake", fmt.Sprintf("height %d: app edit id %d for %s signed by %s took effect", h, rec.Step.ID, named, rec.SignAddr))
			}
			if na.StakedTokens.GT(pa.StakedTokens) {
				s.res.Probe("app_stake_bump")
			}
		} else if !existed {
			// ---- C28 admission
			s.res.Probe("new_app_staked")
			staked := 0
			for _, a := range t.vb.Apps {
				if a.Status == sdk.Staked && !a.Jailed {
					staked++
				}
			}
			if int64(staked) >= maxApps {
				s.violate("C28", "admitted-beyond-max-applications", "stake", fmt.Sprintf("height %d: application %s staked while %d applications were staked, MaxApplications %d", h, named, staked, maxApps))
			}
			if int64(staked)+1 == maxApps {
				s.res.Probe("app_admitted_at_limit")
			}
		}
		if !existed || na.StakedTokens.GT(pa.StakedTokens) {
			added := na.StakedTokens
			if existed {
				added = na.StakedTokens.Sub(pa.StakedTokens)
			}
			if !existed && na.StakedTokens.LT(sdk.NewInt(minStake)) {
				s.violate("C28", "staked-below-minimum", "stake", fmt.Sprintf("height %d: application %s staked %s, minimum %d", h, named, na.StakedTokens, minStake))
			}
			if t.vb.Balance(named).LT(added) {
				s.violate("C28", "staked-without-funds", "stake", fmt.Sprintf("height %d: application %s staked %s more with balance %s", h, named, added, t.vb.Balance(named)))
			}
			if !poolDelta.Equal(added) {
				s.violate("C20", "pool-vs-staked-amount", "stake", fmt.Sprintf("height %d: application %s added %s to its stake, the pool changed by %s", h, named, added, poolDelta))
			}
			// relay allowance derived from the stake (exact in this configuration: participation rate off)
			wantRelays := new(big.Int).Mul(big.NewInt(base), na.StakedTokens.BigInt())
			wantRelays.Quo(wantRelays, big.NewInt(100_000_000))
			wantRelays.Add(wantRelays, big.NewInt(stab))
			if na.MaxRelays.BigInt().Cmp(wantRelays) != 0 {
				s.violate("C28", "allowance-not-derived-from-stake", "stake", fmt.Sprintf("height %d: application %s stake %s base rate %d: allowance %s, expected %s", h, named, na.StakedTokens, base, na.MaxRelays, wantRelays))
			}
		}
		if int64(len(na.Chains)) > maxChains && fmt.Sprint(na.Chains) != fmt.Sprint(pa.Chains) {
			s.violate("C28", "too-many-chains-accepted", "stake", fmt.Sprintf("height %d: application %s staked for %d chains, maximum %d", h, named, len(na.Chains), maxChains))
		}
		s.res.Case(fmt.Sprintf("appstake/new=%v", !existed))
	case "app_unstake":
		pa, existed := t.vb.Apps[named]
		na, exists := t.va.Apps[named]
		if existed && exists && pa.Status == sdk.Staked && na.Status == sdk.Unstaking {
			s.res.Probe("app_began_unstaking")
			if rec.SignAddr != named {
				s.violate("C24", "app-unstaked-by-other-key", "application", fmt.Sprintf("height %d: app unstake id %d for %s signed by %s took effect", h, rec.Step.ID, named, rec.SignAddr))
			}
		}
		for _, a := range touched {
			if a != named {
				s.violate("C24", "unstake-touched-other-application", "application", fmt.Sprintf("height %d: app unstake id %d for %s changed application %s", h, rec.Step.ID, named, a))
			}
		}
	}
}
