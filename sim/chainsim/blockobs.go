package chainsim

// Per-block observation: dumps at every ABCI phase boundary and the oracles that work on the
// diffs between consecutive dumps.

import (
	"fmt"
	"strings"

	abci "github.com/tendermint/tendermint/abci/types"
)

type blockObs struct {
	s         *Sim
	spec      *BlockSpec
	pend      []pendingTx
	st        *Step
	pre       *Dump
	cur       *Dump
	preView   *View
	beginView *View
}

func (s *Sim) newBlockObs(spec *BlockSpec, pend []pendingTx, st *Step) *blockObs {
	return &blockObs{s: s, spec: spec, pend: pend, st: st}
}

func (b *blockObs) interfAt(phase string) {
	for _, q := range b.st.Interf {
		if q.Phase == phase {
			b.s.interfere(q, phase)
		}
	}
}

func (b *blockObs) phases() *Phases {
	s := b.s
	h := b.spec.Height
	return &Phases{
		BeforeBegin: func() {
			b.interfAt("pre")
			b.pre = TakeDump(s.node, h)
			b.cur = b.pre
			b.preView = b.pre.View()
			// C06: transient stores are empty at the start of every block
			for name, m := range b.pre.Stores {
				// block 1 starts from the deliver state of InitChain (ABCI design), so its transient
				// stores carry the genesis parameter writes; every later block starts after a commit
				if h > 1 && strings.HasPrefix(name, "T:") && len(m) > 0 {
					for k := range m {
						s.violate("C06", "transient-not-empty-at-block-start", name, fmt.Sprintf("height %d: transient store %s holds key %q before BeginBlock", h, name, k))
						break
					}
				}
			}
			// C11/C13: nothing but blocks may have changed the state since the last commit
			if s.committed != nil {
				if ch := Diff(s.committed, b.pre); len(ch) > 0 {
					s.violate("C11", "state-changed-between-blocks", ch[0].Store, fmt.Sprintf("before BeginBlock of %d the state differs from what block %d committed: %s (+%d more)", h, h-1, ch[0], len(ch)-1))
				}
			}
		},
		AfterBegin: func(r abci.ResponseBeginBlock) {
			d := TakeDump(s.node, h)
			s.checkBegin(b, b.pre, d)
			b.cur = d
			b.beginView = d.View()
			b.interfAt("begin")
		},
		AfterTx: func(i int, tx []byte, r abci.ResponseDeliverTx) {
			d := TakeDump(s.node, h)
			s.checkTx(b, i, tx, r, b.cur, d)
			b.cur = d
			b.interfAt(fmt.Sprintf("tx%d", i))
		},
		AfterEnd: func(r abci.ResponseEndBlock) {
			d := TakeDump(s.node, h)
			s.checkEnd(b, r, b.cur, d)
			b.cur = d
			b.interfAt("end")
		},
		AfterCommit: func(appHash []byte) {
			d := TakeDump(s.node, h)
			// Commit itself must not change persistent contents
			if ch := Diff(b.cur, d); len(ch) > 0 {
				s.violate("C06", "commit-changes-contents", ch[0].Store, fmt.Sprintf("height %d: persistent state differs across Commit: %s", h, ch[0]))
			}
			if got := s.node.App.LastBlockHeight(); got != h {
				s.violate("C06", "commit-version", "app", fmt.Sprintf("after committing block %d the app reports version %d", h, got))
			}
			s.committed = d
			s.book[h] = d
			s.committedView = d.View()
			s.checkCommitted(b, s.committedView, d)
			b.interfAt("commit")
		},
	}
}

func (b *blockObs) finish(res *BlockResult) {
	b.s.checkValidatorUpdates(b, res)
}
