package chainsim

// Off-chain interference (F7): queries at any height, CheckTx and app/simulate, placed at any ABCI
// boundary. The oracle for C11 is exact: the persistent state right after the call equals the
// state right before it.

import (
	"bytes"
	"encoding/hex"
	"fmt"
	"strings"

	"github.com/pokt-network/pocket-core/app"
	"github.com/pokt-network/pocket-core/x/auth"
	authTypes "github.com/pokt-network/pocket-core/x/auth/types"

	pc "github.com/pokt-network/pocket-core/x/pocketcore/types"
	"sort"

	"github.com/pokt-network/pocket-core/codec"

	sdk "github.com/pokt-network/pocket-core/types"
	appsTypes "github.com/pokt-network/pocket-core/x/apps/types"
	nodesTypes "github.com/pokt-network/pocket-core/x/nodes/types"
	abci "github.com/tendermint/tendermint/abci/types"
)

func (s *Sim) tipMinus(off int64) int64 {
	h := s.node.App.LastBlockHeight() - off
	if h < 1 {
		h = 1
	}
	return h
}

func (s *Sim) interfere(q Interf, phase string) {
	n := s.node
	height := s.drv.Height + 1
	before := TakeDump(n, height)
	globalsBefore := codecGlobals()
	evidenceBefore := s.localEvidence()
	subject := q.Kind
	func() {
		defer func() {
			if p := recover(); p != nil {
				// a panicking query is the RPC layer's problem, not a state change; count it
				s.res.Probe("offchain_call_panicked")
			}
		}()
		switch q.Kind {
		case "query":
			subject = "query/" + q.Path
			h := s.tipMinus(q.Height)
			addr := s.key(q.Key).String()
			hv := s.viewAt(h) // what block h committed (C09: a read at height h sees exactly that)
			if h <= s.cfg.UpgradeHeight {
				hv = nil // legacy-codec era: not judged
			}
			switch q.Path {
			case "balance":
				got, err := n.App.QueryBalance(addr, h)
				if hv != nil && err == nil {
					s.res.Probe("historical_answer_checked")
					if want := hv.Balance(addr); !got.Equal(want) {
						s.violate("C09", "historical-answer", "balance", fmt.Sprintf("tip %d: balance of %s at height %d answered %s, block %d committed %s", s.drv.Height, addr, h, got, h, want))
					}
				}
			case "account":
				_, _ = n.App.QueryAccount(addr, h)
			case "node":
				got, err := n.App.QueryNode(addr, h)
				if hv != nil {
					s.judgeHistoricalNode("node", addr, h, hv, got, err == nil)
				}
			case "app":
				got, err := n.App.QueryApp(addr, h)
				if hv != nil {
					s.judgeHistoricalApp("app", addr, h, hv, got, err == nil)
				}
			case "nodes":
				_, _ = n.App.QueryNodes(h, nodesTypes.QueryValidatorsParams{Page: 1, Limit: 100})
			case "apps":
				_, _ = n.App.QueryApps(h, appsTypes.QueryApplicationsWithOpts{Page: 1, Limit: 100})
			case "params":
				_, _ = n.App.QueryAllParams(h)
			case "supply":
				_, _, _ = n.App.QueryTotalNodeCoins(h)
				_, _ = n.App.QueryDaoBalance(h)
			case "claims":
				_, _ = n.App.QueryClaims(addr, h, 1, 100)
			case "upgrade":
				_, _ = n.App.QueryUpgrade(h)
				_, _ = n.App.QueryACL(h)
			case "store":
				_ = n.App.Query(abci.RequestQuery{Path: "/store/pos/subspace", Data: []byte{0x21}, Height: h})
				_ = n.App.Query(abci.RequestQuery{Path: "/store/acc/subspace", Data: []byte{0x01}, Height: h})
			case "version":
				_ = n.App.Query(abci.RequestQuery{Path: "app/version"})
			case "custom_app":
				// the ABCI custom-query route (what CLI/light clients reach through abci_query); its
				// context is not a PrevCtx even at a past height
				a, _ := sdk.AddressFromHex(addr)
				r := n.App.Query(abci.RequestQuery{Path: "custom/application/application", Data: appsTypes.ModuleCdc.MustMarshalJSON(appsTypes.QueryAppParams{Address: a}), Height: h})
				if hv := s.viewAt(h); hv != nil && h > s.cfg.UpgradeHeight {
					var got appsTypes.Application
					ok := r.Code == 0 && appsTypes.ModuleCdc.UnmarshalJSON(r.Value, &got) == nil
					if r.Code == 0 && !ok {
						break
					}
					s.judgeHistoricalApp("custom_app", addr, h, hv, got, ok)
				}
			case "custom_apps":
				_ = n.App.Query(abci.RequestQuery{Path: "custom/application/applications", Data: appsTypes.ModuleCdc.MustMarshalJSON(appsTypes.QueryApplicationsWithOpts{Page: 1, Limit: 100}), Height: h})
			case "custom_node":
				a, _ := sdk.AddressFromHex(addr)
				r := n.App.Query(abci.RequestQuery{Path: "custom/pos/validator", Data: nodesTypes.ModuleCdc.MustMarshalJSON(nodesTypes.QueryValidatorParams{Address: a}), Height: h})
				if hv := s.viewAt(h); hv != nil && h > s.cfg.UpgradeHeight {
					var got nodesTypes.Validator
					ok := r.Code == 0 && nodesTypes.ModuleCdc.UnmarshalJSON(r.Value, &got) == nil
					if r.Code == 0 && !ok {
						break
					}
					s.judgeHistoricalNode("custom_node", addr, h, hv, got, ok)
				}
			case "custom_nodes":
				_ = n.App.Query(abci.RequestQuery{Path: "custom/pos/validators", Data: nodesTypes.ModuleCdc.MustMarshalJSON(nodesTypes.QueryValidatorsParams{Page: 1, Limit: 100}), Height: h})
			case "custom_balance":
				a, _ := sdk.AddressFromHex(addr)
				_ = n.App.Query(abci.RequestQuery{Path: "custom/pos/account_balance", Data: nodesTypes.ModuleCdc.MustMarshalJSON(nodesTypes.QueryAccountParams{Address: a}), Height: h})
			case "custom_params":
				_ = n.App.Query(abci.RequestQuery{Path: "custom/pos/parameters", Height: h})
				_ = n.App.Query(abci.RequestQuery{Path: "custom/application/parameters", Height: h})
				_ = n.App.Query(abci.RequestQuery{Path: "custom/pocketcore/parameters", Height: h})
			}
			if q.Height > 0 {
				s.res.Probe("historical_query")
			}
		case "dispatch":
			// a client asks for the session of an application on a chain (fills the session cache)
			chain := q.Path
			if chain == "" {
				chain = s.cfg.Chains[0]
			}
			subject = "dispatch"
			hdr := pc.SessionHeader{ApplicationPubKey: KeyFor(s.cfg.KeySeed, q.Key).PublicKey().RawString(), Chain: chain, SessionBlockHeight: s.sessionHeightAt(n.App.LastBlockHeight())}
			_, _ = n.App.HandleDispatch(hdr)
		case "checktx", "simulate":
			var bz []byte
			if q.Tx != nil && q.Tx.Kind == "bad_proof" {
				bz = s.garbageProofTx()
				subject = q.Kind + "/proof-for-a-pending-claim/none"
			} else if q.Tx != nil {
				rec := s.buildTx(q.Tx)
				bz = rec.Bytes
				subject = q.Kind + "/" + q.Tx.Kind + "/" + q.Tx.Sig
			} else if rec, ok := s.txs[q.Ref]; ok {
				bz = rec.Bytes
				subject = q.Kind + "/" + rec.Step.Kind + "/ref"
			}
			if bz == nil {
				return
			}
			if q.Kind == "checktx" {
				typ := abci.CheckTxType_New
				if q.Path == "recheck" {
					// what the mempool does with the transactions it still holds after a block
					typ = abci.CheckTxType_Recheck
				}
				_ = n.App.CheckTx(abci.RequestCheckTx{Tx: bz, Type: typ})
			} else {
				_ = n.App.Query(abci.RequestQuery{Path: "app/simulate", Data: bz, Height: s.drv.Height})
			}
		}
	}()
	s.res.Fault("offchain_" + q.Kind + "@" + phaseClass(phase))
	after := TakeDump(n, height)
	// what the node's servicers hold as evidence of served relays is what their next claims and
	// proofs are built from: a call that is not a relay must leave it alone
	if ev := s.localEvidence(); ev != evidenceBefore && q.Kind != "dispatch" {
		s.violate("C11", "offchain-call-changed-node-evidence", subject, fmt.Sprintf("height %d phase %s: %s changed the relay evidence the node holds from [%s] to [%s]", height, phase, subject, evidenceBefore, ev))
	}
	// the protocol-version switches the node executes blocks under live in process globals
	// (codec.UpgradeHeight, OldUpgradeHeight, UpgradeFeatureMap): they are part of what the next
	// block builds on, although no store holds them
	if g := codecGlobals(); g != globalsBefore {
		s.violate("C11", "offchain-call-changed-node-globals", subject, fmt.Sprintf("height %d phase %s: %s changed the node's upgrade switches from %s to %s", height, phase, subject, globalsBefore, g))
	}
	if ch := Diff(before, after); len(ch) > 0 {
		s.violate("C11", "offchain-call-changed-state", subject, fmt.Sprintf("height %d phase %s: %s changed the state the next block builds on: %s (+%d more)", height, phase, subject, ch[0], len(ch)-1))
	}
	s.res.Case(fmt.Sprintf("offchain/%s/%s", subject, phaseClass(phase)))
}

// localEvidence renders, per local servicer and session, how many relay proofs its evidence holds.
func (s *Sim) localEvidence() string {
	addrs := make([]string, 0, len(pc.GlobalPocketNodes))
	for a := range pc.GlobalPocketNodes {
		addrs = append(addrs, a)
	}
	sort.Strings(addrs)
	var parts []string
	for _, a := range addrs {
		pn := pc.GlobalPocketNodes[a]
		if pn == nil || pn.EvidenceStore == nil {
			continue
		}
		it := pc.EvidenceIterator(pn.EvidenceStore)
		var evs []string
		for ; it.Valid(); it.Next() {
			ev := it.Value()
			evs = append(evs, fmt.Sprintf("%s/%s/%d=%d", ev.SessionHeader.ApplicationPubKey[:8], ev.SessionHeader.Chain, ev.SessionHeader.SessionBlockHeight, ev.NumOfProofs))
		}
		it.Close()
		sort.Strings(evs)
		if len(evs) > 0 {
			parts = append(parts, a[:8]+":"+strings.Join(evs, ","))
		}
	}
	return strings.Join(parts, " ")
}

// garbageProofTx builds an unsigned proof transaction an outsider can put together for a pending
// claim of one of this node's servicers: a relay proof leaf of its own making that names the
// servicer, and a merkle path of the right depth filled with made-up hashes.
func (s *Sim) garbageProofTx() []byte {
	v := s.committedView
	if v == nil {
		return nil
	}
	keys := make([]string, 0, len(v.Claims))
	for k := range v.Claims {
		keys = append(keys, k)
	}
	sort.Strings(keys)
	for _, k := range keys {
		c := v.Claims[k]
		sk := s.keyIndexOf(c.FromAddress.String())
		if _, local := pc.GlobalPocketNodes[c.FromAddress.String()]; !local || sk < 0 || c.EvidenceType != pc.RelayEvidence {
			continue
		}
		appAddr := ""
		if pk, err := hex.DecodeString(c.SessionHeader.ApplicationPubKey); err == nil {
			appAddr = sdk.Address(addressFromEd25519(pk)).String()
		}
		ak := s.keyIndexOf(appAddr)
		if ak < 0 {
			continue
		}
		s.relayEntropy++
		leaf := s.makeRelay(ak, c.SessionHeader.Chain, c.SessionHeader.SessionBlockHeight, sk, s.relayEntropy, "").Proof
		levels := 0
		for n := int64(1); n < c.TotalProofs; n *= 2 {
			levels++
		}
		if levels < 3 {
			levels = 3
		}
		mp := pc.MerkleProof{TargetIndex: 0, Target: pc.HashRange{Hash: bytes.Repeat([]byte{0x5a}, 32), Range: pc.Range{Lower: 0, Upper: 7}}}
		for i := 0; i < levels; i++ {
			mp.HashRanges = append(mp.HashRanges, pc.HashRange{Hash: bytes.Repeat([]byte{byte(i + 1)}, 32), Range: pc.Range{Lower: uint64(8 + i), Upper: uint64(9 + i)}})
		}
		m := pc.MsgProof{MerkleProof: mp, Leaf: leaf, EvidenceType: pc.RelayEvidence}
		fee := sdk.NewCoins(sdk.NewCoin(sdk.DefaultStakeDenom, sdk.NewInt(baseFee)))
		tx := authTypes.NewTx(&m, fee, authTypes.StdSignature{Signature: make([]byte, 64), PublicKey: KeyFor(s.cfg.KeySeed, sk).PublicKey()}, "", s.relayEntropy)
		bz, err := auth.DefaultTxEncoder(app.Codec())(tx, -1)
		if err != nil {
			continue
		}
		s.res.Probe("garbage_proof_for_pending_claim_built")
		return bz
	}
	return nil
}

// codecGlobals renders the process-global protocol switches deterministically.
func codecGlobals() string {
	keys := make([]string, 0, len(codec.UpgradeFeatureMap))
	for k := range codec.UpgradeFeatureMap {
		keys = append(keys, k)
	}
	sort.Strings(keys)
	out := fmt.Sprintf("upgrade=%d old=%d", codec.UpgradeHeight, codec.OldUpgradeHeight)
	for _, k := range keys {
		out += fmt.Sprintf(" %s:%d", k, codec.UpgradeFeatureMap[k])
	}
	return out
}

func (s *Sim) judgeHistoricalNode(path, addr string, h int64, hv *View, got nodesTypes.Validator, found bool) {
	if s.restartedSinceBlock {
		// between a restart and the first block the check state has no header yet; what the custom
		// query route decodes in that window is reported under its own identity
		path += "/after-restart-before-first-block"
	}
	want, exists := hv.Validators[addr]
	s.res.Probe("historical_answer_checked")
	if h < s.drv.Height {
		s.res.Probe("historical_answer_checked_below_tip")
	}
	switch {
	case found != exists:
		s.violate("C09", "historical-answer", path, fmt.Sprintf("tip %d: node %s at height %d: found=%v, block %d committed a record: %v", s.drv.Height, addr, h, found, h, exists))
	case found && (!got.StakedTokens.Equal(want.StakedTokens) || got.Status != want.Status || got.Jailed != want.Jailed || fmt.Sprint(got.Chains) != fmt.Sprint(want.Chains) || got.ServiceURL != want.ServiceURL || !got.OutputAddress.Equals(want.OutputAddress)):
		s.violate("C09", "historical-answer", path, fmt.Sprintf("tip %d: node %s at height %d answered stake %s status %d jailed %v chains %v url %s output %s, block %d committed stake %s status %d jailed %v chains %v url %s output %s", s.drv.Height, addr, h, got.StakedTokens, got.Status, got.Jailed, got.Chains, got.ServiceURL, got.OutputAddress, h, want.StakedTokens, want.Status, want.Jailed, want.Chains, want.ServiceURL, want.OutputAddress))
	}
}

func (s *Sim) judgeHistoricalApp(path, addr string, h int64, hv *View, got appsTypes.Application, found bool) {
	if s.restartedSinceBlock {
		path += "/after-restart-before-first-block"
	}
	want, exists := hv.Apps[addr]
	s.res.Probe("historical_answer_checked")
	if h < s.drv.Height {
		s.res.Probe("historical_answer_checked_below_tip")
	}
	switch {
	case found != exists:
		s.violate("C09", "historical-answer", path, fmt.Sprintf("tip %d: application %s at height %d: found=%v, block %d committed a record: %v", s.drv.Height, addr, h, found, h, exists))
	case found && (!got.StakedTokens.Equal(want.StakedTokens) || got.Status != want.Status || got.Jailed != want.Jailed || fmt.Sprint(got.Chains) != fmt.Sprint(want.Chains) || !got.MaxRelays.Equal(want.MaxRelays)):
		s.violate("C09", "historical-answer", path, fmt.Sprintf("tip %d: application %s at height %d answered stake %s status %d chains %v allowance %s, block %d committed stake %s status %d chains %v allowance %s", s.drv.Height, addr, h, got.StakedTokens, got.Status, got.Chains, got.MaxRelays, h, want.StakedTokens, want.Status, want.Chains, want.MaxRelays))
	}
}

func phaseClass(p string) string {
	if len(p) > 2 && p[:2] == "tx" {
		return "mid-block"
	}
	return p
}
