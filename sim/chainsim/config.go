package chainsim

import "verif/sim/core"

var allFeatures = []string{"NCUST", "MAXCH", "REDUP", "MREL", "REPBR", "BLOCK", "RSCAL", "VEDIT", "OEDIT", "CRVAL", "PerChainRTTM", "AppTransfer", "RewardDelegators"}

// DefaultConfig is the modern-era configuration with fixed, moderate parameters.
func DefaultConfig(keySeed uint64) *Config {
	f := map[string]int64{}
	for _, k := range allFeatures {
		f[k] = 4
	}
	return &Config{
		KeySeed: keySeed, NWallets: 6, NNodes: 5, NApps: 2, NSpare: 4, OwnerKey: 0, Chains: []string{"0001", "0021"},
		BlocksPerSession: 4, ClaimWindow: 3, ClaimExpiration: 24, SessionNodeCount: 3, MinProofs: 5,
		MaxValidators: 4, StakeMinimum: 15_000_000, NodeUnstakingSecs: 3600, AppUnstakingSecs: 3600,
		MaxApplications: 6, AppStakeMin: 1_000_000, AppMaxChains: 3, NodeMaxChains: 3, BaseRelaysPerPOKT: 200,
		DAOAllocation: 10, ProposerAllocation: 5, RTTM: 1000, SignedBlocksWindow: 10, MinSignedPct: 50,
		DowntimeJailSecs: 1800, MaxJailedBlocks: 30, SlashDoubleSignPct: 5, SlashDowntimePct: 1, ReplayBurnMult: 3,
		CodecUpgradeHeight: 2, UpgradeHeight: 3, Features: f,
		IavlCache: 10000, CtxCache: 20, AppCache: 5, ValCache: 5, SessionCache: 100, EvidenceCache: 100, ClientBlockSyncAllowance: 10,
		Steps: 60,
	}
}

// SwarmConfig draws a configuration from the seed.
func SwarmConfig(r *core.Rand) *Config {
	c := DefaultConfig(r.Seed())
	c.NWallets = r.Range(4, 8)
	c.NNodes = r.Range(3, 7)
	c.NApps = r.Range(1, 3)
	c.NSpare = r.Range(3, 6)
	c.BlocksPerSession = int64(r.Range(2, 6))
	c.ClaimWindow = int64(r.Range(2, 4))
	c.ClaimExpiration = int64(r.Range(6, 30))
	c.SessionNodeCount = int64(r.Range(1, 4))
	c.MaxValidators = int64(r.Range(2, c.NNodes+1))
	c.NodeUnstakingSecs = int64([]int{1, 900, 3600, 86400}[r.Intn(4)])
	c.AppUnstakingSecs = int64([]int{1, 900, 3600, 86400}[r.Intn(4)])
	c.MaxApplications = int64(c.NApps + r.Range(0, 3))
	c.AppMaxChains = int64(r.Range(1, 3))
	c.NodeMaxChains = int64(r.Range(1, 3))
	c.DAOAllocation = int64(r.Range(0, 40))
	c.ProposerAllocation = int64(r.Range(0, 20))
	c.RTTM = int64([]int{1, 1000, 1337, 10000}[r.Intn(4)])
	c.SignedBlocksWindow = int64(r.Range(10, 12))
	c.MinSignedPct = int64([]int{34, 50, 75}[r.Intn(3)])
	c.DowntimeJailSecs = int64([]int{60, 1800, 7200}[r.Intn(3)])
	c.MaxJailedBlocks = int64(r.Range(4, 40))
	c.SlashDoubleSignPct = int64(r.Range(1, 50))
	c.SlashDowntimePct = int64(r.Range(1, 20))
	c.RSCALOn = r.Chance(0.5)
	c.SplitACL = r.Chance(0.5)
	c.BaseRelaysPerPOKT = int64([]int{200, 20000, 200000}[r.Intn(3)])
	c.IavlCache = []int64{2, 8, 10000}[r.Intn(3)]
	c.CtxCache = []int{1, 3, 20}[r.Intn(3)]
	c.SessionCache = []int{1, 4, 100}[r.Intn(3)]
	c.EvidenceCache = []int{1, 4, 100}[r.Intn(3)]
	c.Steps = r.Range(40, 140)
	return c
}
