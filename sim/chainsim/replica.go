package chainsim

// Differential replicas (DESIGN §6.4): the chain log recorded from the primary is re-executed by
// variant replicas, one at a time, each after a full Reset(). Equality of per-transaction
// {code, codespace, data}, EndBlock validator updates and Commit data is the oracle for C06, C11,
// C12 and C13. Replicas interact only through blocks, which the driver owns, so running them one
// after the other is equivalent to running them side by side.

import (
	"fmt"
	"runtime"
	"strings"
	"testing"
	"testing/synctest"
	"time"

	"verif/sim/core"

	sdk "github.com/pokt-network/pocket-core/types"
	abci "github.com/tendermint/tendermint/abci/types"
)

type replicaOpts struct {
	gomaxprocs      int
	clock           string // "" real | "behind" (virtual clock decades before chain time) | "ahead"
	junkTransient   bool
	extraPersistent bool
	firstStart      bool // the process that ran InitChain (never restarted), not one that restarted later
}

// replayLog executes the recorded blocks on a fresh node and returns the digest per height.
func (s *Sim) replayLog(name string, o replicaOpts) (out map[int64]string, panicked string) {
	out = map[int64]string{}
	run := func() {
		defer func() {
			if p := recover(); p != nil {
				panicked = firstLine(fmt.Sprint(p))
			}
		}()
		n := NewNode(s.cfg, name, NewDisks(), 0, nil)
		if o.firstStart {
			n.InitChainFirstStart()
		} else {
			n.InitChain()
		}
		junk := func(tag string) {
			if !o.junkTransient {
				return
			}
			for name, k := range n.App.Tkeys {
				_ = n.App.Store().GetKVStore(k).Set([]byte("zz/verif-junk/"+name+"/"+tag), []byte{1, 2, 3})
			}
		}
		for _, spec := range s.drv.Log {
			ph := &Phases{
				BeforeBegin: func() { junk("pre") },
				AfterBegin:  func(abci.ResponseBeginBlock) { junk("begin") },
				AfterTx:     func(i int, _ []byte, _ abci.ResponseDeliverTx) { junk(fmt.Sprintf("tx%d", i)) },
				AfterEnd: func(abci.ResponseEndBlock) {
					junk("end")
					if o.extraPersistent && spec.Height == s.drv.Log[len(s.drv.Log)-1].Height {
						_ = n.App.Store().GetKVStore(n.App.Keys["main"]).Set([]byte("zz/verif-control"), []byte{1})
					}
				},
			}
			r := ExecBlock(n, spec, ph)
			out[spec.Height] = r.Digest()
		}
	}
	if o.gomaxprocs > 0 {
		prev := runtime.GOMAXPROCS(o.gomaxprocs)
		defer runtime.GOMAXPROCS(prev)
	}
	switch o.clock {
	case "":
		run()
	default:
		// the synctest bubble clock starts at 2000-01-01: decades behind the chain's block times;
		// sleeping moves it decades ahead
		func() {
			// pocket-core leaks a few iterator goroutines (unclosed IAVL iterators block forever on
			// their channel); outside a bubble that is harmless, at the end of a bubble synctest
			// reports them as a deadlock. The replica's results are complete by then.
			defer func() {
				if p := recover(); p != nil {
					msg := fmt.Sprint(p)
					if !strings.Contains(msg, "main bubble goroutine has exited") {
						panic(p)
					}
				}
			}()
			synctest.Test(core.T, func(t *testing.T) {
				if o.clock == "ahead" {
					time.Sleep(100 * 365 * 24 * time.Hour)
				}
				run()
			})
		}()
	}
	return out, panicked
}

func (s *Sim) compareReplica(prop, oracle, subject string, base, other map[int64]string, basePanic, otherPanic string) bool {
	if basePanic != "" || otherPanic != "" {
		if basePanic != otherPanic {
			s.violate(prop, oracle, subject, fmt.Sprintf("replica %q stopped with %q, reference with %q", subject, otherPanic, basePanic))
			return false
		}
	}
	for _, spec := range s.drv.Log {
		h := spec.Height
		a, okA := base[h]
		b, okB := other[h]
		if okA != okB || a != b {
			s.violate(prop, oracle, subject, fmt.Sprintf("height %d: replica %q answered %s, the reference %s", h, subject, clip(b), clip(a)))
			return false
		}
	}
	return true
}

func clip(s string) string {
	if len(s) > 220 {
		return s[:220] + "…"
	}
	return s
}

func (s *Sim) primaryDigests() map[int64]string {
	out := map[int64]string{}
	for h, r := range s.results {
		out[h] = r.Digest()
	}
	return out
}

// endOfRun runs the replica comparisons the property under check calls for.
func (s *Sim) endOfRun() {
	switch s.prop {
	case "C06", "C11", "C12", "C13":
	case "C42":
		s.checkSearch("end-of-run")
		return
	case "C43":
		s.checkExportImport()
		return
	default:
		return
	}
	primary := s.primaryDigests()
	plain, pp := s.replayLog("plain", replicaOpts{})
	s.res.Probe("replica_plain")
	switch s.prop {
	case "C11":
		// the primary served CheckTx, simulations and queries; the plain replica did not
		s.compareReplica("C11", "primary-vs-plain-replica", "offchain-busy", plain, primary, pp, "")
	case "C13":
		s.compareReplica("C13", "primary-vs-plain-replica", "offchain-busy", plain, primary, pp, "")
	case "C12":
		s.compareReplica("C12", "replica-diverged", "primary", plain, primary, pp, "")
		again, ap := s.replayLog("plain", replicaOpts{gomaxprocs: 16})
		s.compareReplica("C12", "replica-diverged", "rerun-gomaxprocs16", plain, again, pp, ap)
		behind, bp := s.replayLog("plain", replicaOpts{clock: "behind"})
		s.compareReplica("C12", "replica-diverged", "wall-clock-behind-chain-time", plain, behind, pp, bp)
		ahead, hp := s.replayLog("plain", replicaOpts{clock: "ahead"})
		s.compareReplica("C12", "replica-diverged", "wall-clock-ahead-of-chain-time", plain, ahead, pp, hp)
		// the process that ran InitChain and was never restarted against one that restarted
		first, fp := s.replayLog("plain", replicaOpts{firstStart: true})
		s.compareReplica("C12", "replica-diverged", "first-process-never-restarted", plain, first, pp, fp)
		s.res.ProbeN("replica_variants", 4)
	case "C06":
		junk, jp := s.replayLog("plain", replicaOpts{junkTransient: true})
		s.compareReplica("C06", "transient-writes-changed-app-hash", "extra-transient-writes", plain, junk, pp, jp)
		// control: a persistent write must change the hash (guards against a vacuous comparator)
		ctl, _ := s.replayLog("plain", replicaOpts{extraPersistent: true})
		last := s.drv.Log[len(s.drv.Log)-1].Height
		if ctl[last] == plain[last] {
			panic("HARNESS: the replica comparator did not notice an extra persistent write")
		}
		s.res.ProbeN("replica_variants", 2)
	}
	s.res.Case(fmt.Sprintf("replicas/%s/blocks=%d", s.prop, len(s.drv.Log)))
}

var _ = sdk.ZeroInt
