package chainsim

// Observation: raw key/value dumps of every mounted sub-store (read through KVStore iterators of
// the root stores, never through keepers, so keeper-level caches are not touched) and typed views
// decoded with the repository's codec.

import (
	"bytes"
	"crypto/sha256"
	"encoding/binary"
	"encoding/json"
	"fmt"
	"sort"
	"strconv"
	"time"

	"github.com/pokt-network/pocket-core/app"
	sdk "github.com/pokt-network/pocket-core/types"
	appsTypes "github.com/pokt-network/pocket-core/x/apps/types"
	"github.com/pokt-network/pocket-core/x/auth"
	authTypes "github.com/pokt-network/pocket-core/x/auth/types"
	govTypes "github.com/pokt-network/pocket-core/x/gov/types"
	nodesTypes "github.com/pokt-network/pocket-core/x/nodes/types"
	pocketTypes "github.com/pokt-network/pocket-core/x/pocketcore/types"
)

type Dump struct {
	Height int64 // the height whose encoding rules apply (height being executed, or committed)
	Stores map[string]map[string][]byte
}

func TakeDump(n *Node, height int64) *Dump {
	d := &Dump{Height: height, Stores: map[string]map[string][]byte{}}
	cms := n.App.Store()
	read := func(name string, key sdk.StoreKey) {
		m := map[string][]byte{}
		it, _ := cms.GetKVStore(key).Iterator(nil, nil)
		for ; it.Valid(); it.Next() {
			m[string(it.Key())] = append([]byte{}, it.Value()...)
		}
		it.Close()
		d.Stores[name] = m
	}
	for name, k := range n.App.Keys {
		read(name, k)
	}
	for name, k := range n.App.Tkeys {
		read("T:"+name, k)
	}
	return d
}

type Change struct {
	Store string
	Key   []byte
	Old   []byte
	New   []byte
}

func (c Change) String() string {
	return fmt.Sprintf("%s/%x: %x -> %x", c.Store, c.Key, trunc(c.Old), trunc(c.New))
}

func trunc(b []byte) []byte {
	if len(b) > 24 {
		return b[:24]
	}
	return b
}

// Diff lists the persistent-store changes from a to b in deterministic order.
func Diff(a, b *Dump) []Change {
	var out []Change
	names := map[string]bool{}
	for n := range a.Stores {
		names[n] = true
	}
	for n := range b.Stores {
		names[n] = true
	}
	sn := make([]string, 0, len(names))
	for n := range names {
		if len(n) > 2 && n[:2] == "T:" {
			continue
		}
		sn = append(sn, n)
	}
	sort.Strings(sn)
	for _, name := range sn {
		ma, mb := a.Stores[name], b.Stores[name]
		keys := map[string]bool{}
		for k := range ma {
			keys[k] = true
		}
		for k := range mb {
			keys[k] = true
		}
		sk := make([]string, 0, len(keys))
		for k := range keys {
			sk = append(sk, k)
		}
		sort.Strings(sk)
		for _, k := range sk {
			va, oka := ma[k]
			vb, okb := mb[k]
			if oka != okb || !bytes.Equal(va, vb) {
				out = append(out, Change{Store: name, Key: []byte(k), Old: va, New: vb})
			}
		}
	}
	return out
}

func (d *Dump) Hash() string {
	hs := sha256.New()
	names := make([]string, 0)
	for n := range d.Stores {
		names = append(names, n)
	}
	sort.Strings(names)
	for _, n := range names {
		keys := make([]string, 0)
		for k := range d.Stores[n] {
			keys = append(keys, k)
		}
		sort.Strings(keys)
		for _, k := range keys {
			fmt.Fprintf(hs, "%s|%x|%x;", n, k, d.Stores[n][k])
		}
	}
	return fmt.Sprintf("%x", hs.Sum(nil))[:16]
}

func minInt(a, b int) int {
	if a < b {
		return a
	}
	return b
}

// ---------------------------------------------------------------- typed view

type Account struct {
	Addr   string
	Coins  sdk.Coins
	Upokt  sdk.BigInt
	Module string // module account name, "" for plain accounts
	HasPub bool
}

type View struct {
	Height     int64
	Accounts   map[string]*Account // hex address
	Supply     sdk.Coins
	SupplyAmt  sdk.BigInt
	Validators map[string]nodesTypes.Validator
	Apps       map[string]appsTypes.Application
	Claims     map[string]pocketTypes.MsgClaim // key hex -> claim
	Params     map[string]string               // "subspace/Key" -> raw json
	Signing    map[string]nodesTypes.ValidatorSigningInfo
	Waiting    map[string]bool // nodes waiting to begin unstaking
	Errors     []string
	raw        *Dump
}

var ModuleNames = []string{authTypes.FeeCollectorName, nodesTypes.StakedPoolName, appsTypes.StakedPoolName, govTypes.DAOAccountName, nodesTypes.ModuleName, appsTypes.ModuleName}

func ModuleAddr(name string) string { return auth.NewModuleAddress(name).String() }

func (d *Dump) View() *View {
	cdc := app.Codec()
	h := d.Height
	v := &View{Height: h, Accounts: map[string]*Account{}, Validators: map[string]nodesTypes.Validator{}, Apps: map[string]appsTypes.Application{},
		Claims: map[string]pocketTypes.MsgClaim{}, Params: map[string]string{}, Signing: map[string]nodesTypes.ValidatorSigningInfo{}, Waiting: map[string]bool{},
		SupplyAmt: sdk.ZeroInt(), raw: d}
	modByAddr := map[string]string{}
	for _, m := range ModuleNames {
		modByAddr[ModuleAddr(m)] = m
	}
	// auth
	for k, val := range d.Stores[auth.StoreKey] {
		key := []byte(k)
		switch key[0] {
		case authTypes.SupplyKeyPrefix[0]:
			var s authTypes.Supply
			if err := cdc.UnmarshalBinaryLengthPrefixed(val, &s, h); err != nil {
				v.Errors = append(v.Errors, "supply undecodable: "+err.Error())
				continue
			}
			v.Supply = s.Total
			v.SupplyAmt = s.Total.AmountOf(sdk.DefaultStakeDenom)
		case authTypes.AddressStoreKeyPrefix[0]:
			addr := sdk.Address(key[1:])
			a := &Account{Addr: addr.String(), Upokt: sdk.ZeroInt()}
			var ba authTypes.BaseAccount
			if err := cdc.UnmarshalBinaryBare(val, &ba, h); err == nil && bytes.Equal(ba.Address, addr) {
				a.Coins, a.HasPub = ba.Coins, ba.PubKey != nil
			} else {
				var ma authTypes.ModuleAccount
				if err2 := cdc.UnmarshalBinaryBare(val, &ma, h); err2 == nil && ma.BaseAccount != nil && bytes.Equal(ma.GetAddress(), addr) {
					a.Coins, a.Module = ma.GetCoins(), ma.Name
				} else {
					v.Errors = append(v.Errors, fmt.Sprintf("account %s undecodable (%d bytes: %x)", addr, len(val), trunc(val)))
					continue
				}
			}
			a.Upokt = a.Coins.AmountOf(sdk.DefaultStakeDenom)
			if m, ok := modByAddr[a.Addr]; ok && a.Module == "" {
				a.Module = m
			}
			v.Accounts[a.Addr] = a
		}
	}
	// nodes
	for k, val := range d.Stores[nodesTypes.StoreKey] {
		key := []byte(k)
		switch key[0] {
		case nodesTypes.AllValidatorsKey[0]:
			var nv nodesTypes.Validator
			if err := cdc.UnmarshalBinaryLengthPrefixed(val, &nv, h); err != nil || len(nv.Address) == 0 {
				var lv nodesTypes.LegacyValidator
				if err2 := cdc.UnmarshalBinaryLengthPrefixed(val, &lv, h); err2 != nil {
					v.Errors = append(v.Errors, fmt.Sprintf("validator %x undecodable: %v", key[1:], err))
					continue
				}
				nv = lv.ToValidator()
			}
			v.Validators[nv.Address.String()] = nv
		case nodesTypes.ValidatorSigningInfoKey[0]:
			var si nodesTypes.ValidatorSigningInfo
			if err := cdc.UnmarshalBinaryLengthPrefixed(val, &si, h); err == nil {
				v.Signing[sdk.Address(key[1:]).String()] = si
			}
		case nodesTypes.WaitingToBeginUnstakingKey[0]:
			v.Waiting[sdk.Address(key[1:]).String()] = true
		}
	}
	// apps
	for k, val := range d.Stores[appsTypes.StoreKey] {
		key := []byte(k)
		if key[0] == appsTypes.AllApplicationsKey[0] {
			var a appsTypes.Application
			if err := cdc.UnmarshalBinaryLengthPrefixed(val, &a, h); err != nil {
				v.Errors = append(v.Errors, fmt.Sprintf("application %x undecodable: %v", key[1:], err))
				continue
			}
			v.Apps[a.Address.String()] = a
		}
	}
	// claims
	for k, val := range d.Stores[pocketTypes.StoreKey] {
		key := []byte(k)
		if key[0] == pocketTypes.ClaimKey[0] {
			var c pocketTypes.MsgClaim
			if err := cdc.UnmarshalBinaryBare(val, &c, h); err != nil {
				v.Errors = append(v.Errors, fmt.Sprintf("claim %x undecodable: %v", key, err))
				continue
			}
			v.Claims[fmt.Sprintf("%x", key)] = c
		}
	}
	for k, val := range d.Stores[sdk.ParamsKey.Name()] {
		v.Params[k] = string(val)
	}
	return v
}

// Balance returns the upokt balance of a hex address (zero if the account does not exist).
func (v *View) Balance(addr string) sdk.BigInt {
	if a, ok := v.Accounts[addr]; ok {
		return a.Upokt
	}
	return sdk.ZeroInt()
}

func (v *View) ModuleBalance(name string) sdk.BigInt { return v.Balance(ModuleAddr(name)) }

// ParamInt reads an integer parameter (amino JSON encodes int64 as a string).
func (v *View) ParamInt(key string) (int64, bool) {
	raw, ok := v.Params[key]
	if !ok {
		return 0, false
	}
	var s string
	if json.Unmarshal([]byte(raw), &s) == nil {
		n, err := strconv.ParseInt(s, 10, 64)
		return n, err == nil
	}
	var n int64
	if json.Unmarshal([]byte(raw), &n) == nil {
		return n, true
	}
	return 0, false
}

// ---------------------------------------------------------------- node index parsing (C21)

type NodeIndexes struct {
	ByPower   map[string]int64    // hex address -> power in the staked-by-power index
	ByChain   map[string][]string // chain -> hex addresses
	Unstaking map[string]string   // hex address -> RFC3339Nano completion time of the queue entry that lists it
	DupPower  []string
	Errors    []string
}

// ParseNodeIndexes parses the raw index entries of the pos store (it does not regenerate keys with
// the repository's helpers).
func (d *Dump) ParseNodeIndexes() *NodeIndexes {
	cdc := app.Codec()
	ix := &NodeIndexes{ByPower: map[string]int64{}, ByChain: map[string][]string{}, Unstaking: map[string]string{}}
	for k, val := range d.Stores[nodesTypes.StoreKey] {
		key := []byte(k)
		switch key[0] {
		case 0x23: // 0x23 | power(8, BE) | ^address
			if len(key) != 1+8+sdk.AddrLen {
				ix.Errors = append(ix.Errors, fmt.Sprintf("staked index key of length %d", len(key)))
				continue
			}
			power := int64(binary.BigEndian.Uint64(key[1:9]))
			addr := make([]byte, sdk.AddrLen)
			for i := range addr {
				addr[i] = ^key[9+i]
			}
			a := sdk.Address(addr).String()
			if _, dup := ix.ByPower[a]; dup {
				ix.DupPower = append(ix.DupPower, a)
			}
			ix.ByPower[a] = power
			if !bytes.Equal(val, addr) {
				ix.Errors = append(ix.Errors, fmt.Sprintf("staked index entry for %s stores %x", a, val))
			}
		case 0x22: // 0x22 | chain(2 bytes) | address
			if len(key) < 1+sdk.AddrLen+1 {
				continue
			}
			chain := fmt.Sprintf("%x", key[1:len(key)-sdk.AddrLen])
			a := sdk.Address(key[len(key)-sdk.AddrLen:]).String()
			ix.ByChain[chain] = append(ix.ByChain[chain], a)
		case 0x41: // 0x41 | time -> list of addresses
			t, err := sdk.ParseTimeBytes(key[1:])
			if err != nil {
				ix.Errors = append(ix.Errors, "unstaking queue key unparsable")
				continue
			}
			var list sdk.Addresses
			if err := cdc.UnmarshalBinaryLengthPrefixed(val, &list, d.Height); err != nil {
				var l2 []sdk.Address
				if err2 := cdc.LegacyUnmarshalBinaryLengthPrefixed(val, &l2); err2 != nil {
					ix.Errors = append(ix.Errors, "unstaking queue value undecodable: "+err.Error())
					continue
				}
				list = l2
			}
			for _, a := range list {
				ix.Unstaking[a.String()] = t.UTC().Format(time.RFC3339Nano)
			}
		}
	}
	for c := range ix.ByChain {
		sort.Strings(ix.ByChain[c])
	}
	return ix
}
