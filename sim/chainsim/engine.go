package chainsim

import (
	"bytes"
	"crypto/sha256"
	"fmt"
	"github.com/pokt-network/pocket-core/codec"
	sdk "github.com/pokt-network/pocket-core/types"
	pc "github.com/pokt-network/pocket-core/x/pocketcore/types"
	"os"
	"runtime/debug"
	"sort"
	"strings"
	"time"
	"verif/sim/simdb"

	"verif/sim/core"

	abci "github.com/tendermint/tendermint/abci/types"
)

type engine struct{}

func (engine) Name() string { return "chainsim" }
func init()                 { core.Register(engine{}) }

type pendingTx struct {
	id    int
	bytes []byte
}

// Sim is one chain simulation run.
type Sim struct {
	prop   string
	tier   string
	cfg    *Config
	res    *core.Result
	node   *Node
	drv    *Driver
	stepNo int

	mempool []pendingTx
	txs     map[int]*TxRecord    // by step id
	byHash  map[string]*TxRecord // by canonical bytes (signed content identity)
	nextID  int
	entropy int64

	committed     *Dump // dump of the last committed state
	committedView *View
	book          map[int64]*Dump
	results       map[int64]*BlockResult

	// C22 cumulative model is drv.Cumulative; lifecycle tables
	life *lifecycle

	simSeconds          float64
	sched               map[string]int64
	relayEntropy        int64
	served              map[string]int
	sessions            map[string]string
	claims              map[string]*claimInst
	viewCache           map[int64]*View
	forged              map[string]string
	dupEvidence         map[string]bool
	effective           map[string]bool // "height/index" of deliveries with a non-empty diff
	addrIdx             map[string]int
	nodeSince           map[string]int64            // C24: height at which the current record of a node key appeared (own record)
	waitingSince        map[string]int64            // C24: height at which its waiting-to-unstake entry appeared (own record)
	jailEnd             map[string]time.Time        // C25: end of the downtime jail period per node, the simulator's own record
	jailEdited          map[string]bool             // C25: the node was edit-staked while serving that period
	restartedSinceBlock bool                        // the node was restarted and has not executed a block since
	members             map[string]map[string]bool  // session header hash -> addresses seen in its node list (dispatch)
	memberHeaders       map[string]pc.SessionHeader // session header hash -> header
	pastServed          []servedTuple               // C35: (application, chain, session, servicer, height) of relays that were served
	sentToModule        map[string]sdk.BigInt       // module account name -> coins it received through plain sends
	outsider            map[string]bool             // claim keys of claims made by nodes outside the session
	replay              bool
	aborted             bool
}

func (s *Sim) violate(prop, oracle, subject, detail string) {
	s.res.Violate(prop, oracle, subject, detail, s.stepNo)
}

const warmupBlocks = 5

func (engine) Run(prop string, seed uint64, tier string, replay *core.Schedule) (*core.Schedule, *core.Result) {
	if prop == "C06" && ((replay != nil && replay.Engine == "storesim") || (replay == nil && seed%3 == 2)) {
		// every third seed: the multistore alone, with transient writes made directly and through
		// (nested) cache-wrapped multistores on one of two otherwise identical nodes
		if e, ok := core.Engines["storesim"]; ok {
			return e.Run(prop, seed, tier, replay)
		}
	}
	r := core.NewRand(seed)
	res := core.NewResult(seed)
	var cfg *Config
	if replay != nil {
		cfg = &Config{}
		core.Dec(replay.Config, cfg)
	} else {
		cfg = SwarmConfig(r.Sub("cfg"))
		tuneForProperty(cfg, prop, r.Sub("tune"))
		if tier != "thorough" {
			cfg.StartHeight = 0 // tens of thousands of blocks: minutes per run, thorough tier only
		}
	}
	s := &Sim{prop: prop, tier: tier, cfg: cfg, res: res, txs: map[int]*TxRecord{}, byHash: map[string]*TxRecord{}, book: map[int64]*Dump{},
		results: map[int64]*BlockResult{}, effective: map[string]bool{}, served: map[string]int{}, sessions: map[string]string{}, claims: map[string]*claimInst{}, forged: map[string]string{}, dupEvidence: map[string]bool{}, relayEntropy: 5000, replay: replay != nil, nextID: 1, entropy: 1000, life: newLifecycle()}
	s.node = NewNode(cfg, "primary", NewDisks(), 0, servicerKeys(cfg))
	s.drv = NewDriver()
	s.drv.InitChain(s.node.InitChain())
	s.stepNo = -1
	for i := 0; i < warmupBlocks && !s.aborted; i++ {
		if i == warmupBlocks-1 {
			s.warmupParams()
		}
		s.execBlock(&Step{Op: "block", DtS: 900})
	}
	if cfg.StartHeight > s.drv.Height && !s.aborted {
		s.fastForward(cfg.StartHeight)
	}
	sched := &core.Schedule{Engine: "chainsim", Property: prop, Seed: seed, Tier: tier, Config: core.Enc(cfg)}
	if replay == nil && tier == "thorough" && seed%2 == 0 {
		// the thorough tier also runs long histories (the configuration records the length)
		cfg.Steps *= 3
	}
	n := cfg.Steps
	if replay != nil {
		n = len(replay.Steps)
	}
	gen := newGenerator(s, r.Sub("steps"))
	for i := 0; i < n && !s.aborted; i++ {
		s.stepNo = i
		st := &Step{}
		if replay != nil {
			core.Dec(replay.Steps[i], st)
		} else {
			st = gen.next()
		}
		sched.Steps = append(sched.Steps, core.Enc(st))
		s.guard(st.Op, func() { s.exec(st) })
		res.Logf("%d %s h=%d app=%x v=%d", i, string(sched.Steps[i]), s.drv.Height, s.drv.AppHash, len(res.Violations))
		res.Tracef("   globals upgrade=%d old=%d features=%v", codec.UpgradeHeight, codec.OldUpgradeHeight, codec.UpgradeFeatureMap)
	}
	s.stepNo = n
	if !s.aborted {
		// flush the mempool into a last block so that every submitted tx meets its oracles
		s.guard("final-block", func() { s.execBlock(&Step{Op: "block", DtS: 900}) })
		s.guard("end-of-run", func() { s.endOfRun() })
	}
	res.Steps = n
	res.SimSeconds = s.simSeconds
	res.SchedFP = core.FP(fmt.Sprint(*cfg))
	res.StateFP = core.FP(fmt.Sprintf("%x", s.drv.AppHash))
	res.Finish()
	return sched, res
}

// warmupParams: the activation of the stake-weighting feature overwrites the four weighting
// parameters with main-net defaults (bins of 15,000 POKT), under which every simulated stake falls
// in bin 0 and every relay reward is zero. The DAO owner sets them back to the configuration's
// values in the last warm-up block, so that rewards are non-zero in the era the oracles judge.
// These transactions are a function of the configuration alone (they are not schedule steps).
func (s *Sim) warmupParams() {
	c := s.cfg
	if h, ok := c.Features["RSCAL"]; !ok || h > int64(warmupBlocks-1) {
		return
	}
	q := func(n int64) string { return fmt.Sprintf("%q", fmt.Sprint(n)) }
	kv := [][2]string{
		{"pos/ServicerStakeFloorMultiplier", q(1_000_000)},
		{"pos/ServicerStakeWeightMultiplier", `"1.000000000000000000"`},
		{"pos/ServicerStakeWeightCeiling", q(c.StakeMinimum + 12_000_000)},
		{"pos/ServicerStakeFloorMultiplierExponent", `"1.000000000000000000"`},
	}
	if c.RSCALOn {
		kv[1][1] = `"1.500000000000000000"`
		kv[2][1] = q(c.StakeMinimum + 9_000_000)
		kv[3][1] = `"0.500000000000000000"`
	}
	for i, e := range kv {
		// ids and entropies outside the ranges the generator uses
		st := &Step{Op: "tx", ID: 1_000_000 + i, Kind: "gov_param", From: c.OwnerKey, SignKey: c.OwnerKey, Sig: "ok", Fee: baseFee, Entropy: int64(900 + i), ParamKey: e[0], ParamVal: e[1], Output: -1}
		s.submitTx(st)
	}
}

// guard: a panic that escapes an ABCI call would crash every node at that block. No listed
// property is stated over blocks that cannot be committed, so such a panic is reported as harness
// trouble (exit 2) with one exception: a panic inside the fee split of BeginBlock is the fee
// split failing (C26).
func (s *Sim) guard(op string, f func()) {
	defer func() {
		if p := recover(); p != nil {
			msg := fmt.Sprint(p)
			stack := string(debug.Stack())
			if strings.HasPrefix(msg, "HARNESS") {
				panic(p)
			}
			if strings.Contains(stack, "blockReward") {
				s.violate("C26", "fee-split-panicked", "begin-block", "BeginBlock panicked while distributing collected fees: "+firstLine(msg))
				s.aborted = true
				return
			}
			where := ""
			for _, l := range strings.Split(stack, "\n") {
				if strings.Contains(l, "/repo/") {
					where = strings.TrimSpace(l)
					break
				}
			}
			panic(fmt.Sprintf("HARNESS: node panicked during %s (step %d): %s at %s", op, s.stepNo, firstLine(msg), where))
		}
	}()
	f()
}

func firstLine(s string) string {
	if i := strings.Index(s, "\n"); i >= 0 {
		return s[:i]
	}
	return s
}

func (s *Sim) exec(st *Step) {
	switch st.Op {
	case "tx":
		s.submitTx(st)
	case "resubmit":
		s.resubmit(st)
	case "block":
		s.execBlock(st)
	case "offchain":
		if st.Q != nil {
			s.interfere(*st.Q, "between-blocks")
		}
	case "restart":
		s.restart()
	case "relay":
		s.doRelays(st)
	case "claims":
		s.autoClaims(st)
	}
}

// ---------------------------------------------------------------- submitting

func (s *Sim) submitTx(st *Step) {
	rec := s.buildTx(st)
	if rec.BuildErr != "" {
		return
	}
	if _, dup := s.txs[st.ID]; dup {
		return
	}
	s.txs[st.ID] = rec
	s.byHash[string(rec.Canon)] = rec
	if st.Via == "checktx" {
		r := s.node.App.CheckTx(abci.RequestCheckTx{Tx: rec.Bytes})
		s.res.Probe("checktx_before_block")
		if r.Code != 0 {
			// a real mempool drops it; the chain never sees it
			s.res.Probe("checktx_rejected")
			return
		}
	}
	s.mempool = append(s.mempool, pendingTx{st.ID, rec.Bytes})
}

func (s *Sim) resubmit(st *Step) {
	orig, ok := s.txs[st.Ref]
	if !ok {
		return
	}
	bz := reencode(orig.Canon, st.Enc)
	if bz == nil {
		return
	}
	if st.Enc != "same" && !sameSignedContent(orig.Canon, bz, s.drv.Height+1) {
		s.res.Probe("reencoding_not_equivalent")
		return
	}
	if st.Enc != "same" {
		s.res.Probe("reencoded_resubmission_decodes_equal")
	}
	s.res.Fault("resubmit_" + st.Enc)
	s.mempool = append(s.mempool, pendingTx{-st.Ref, bz})
}

// ---------------------------------------------------------------- blocks

func (s *Sim) execBlock(st *Step) {
	d := s.drv
	h := d.Height + 1
	dt := st.DtS
	if dt <= 0 {
		dt = 1
	}
	t := d.Time.Add(time.Duration(dt) * time.Second)
	s.simSeconds += float64(dt)
	signers := d.SignersOf(h).Sorted()
	var votes []abci.VoteInfo
	absent := map[int]bool{}
	for _, a := range st.Absent {
		if len(signers) > 0 {
			absent[a%len(signers)] = true
		}
	}
	for i, v := range signers {
		votes = append(votes, abci.VoteInfo{Validator: abci.Validator{Address: v.Addr, Power: v.Power}, SignedLastBlock: !absent[i]})
		if absent[i] {
			s.res.Fault("absent_vote")
		}
	}
	var evidence []abci.Evidence
	for _, e := range st.Evidence {
		if len(signers) == 0 {
			break
		}
		eh := h - e[1]
		if eh < 1 {
			eh = 1
		}
		// the culprit is a validator of the evidence height (it may be jailed or gone by now)
		then := d.SignersOf(eh + 1).Sorted()
		if len(then) == 0 {
			then = signers
		}
		v := then[int(e[0])%len(then)]
		evidence = append(evidence, abci.Evidence{Type: "duplicate/vote", Validator: abci.Validator{Address: v.Addr, Power: v.Power}, Height: eh,
			Time: t.Add(-time.Duration(e[2]) * time.Second), TotalVotingPower: d.SignersOf(h).Total()})
		s.res.Fault("double_sign_evidence")
	}
	props := d.ProposerSet(h).Sorted()
	var proposer []byte
	if len(props) > 0 {
		proposer = props[st.Proposer%len(props)].Addr
	}
	pend := s.mempool
	s.mempool = nil
	if st.Shuffle != 0 && len(pend) > 1 {
		rot := int(st.Shuffle % int64(len(pend)))
		if rot < 0 {
			rot = -rot
		}
		pend = append(append([]pendingTx{}, pend[rot:]...), pend[:rot]...)
		s.res.Fault("mempool_reorder")
	}
	// the node's own broadcasts (auto claim/proof) join the block
	for _, b := range s.node.Tm.Mempool {
		pend = append(pend, pendingTx{0, b})
	}
	s.node.Tm.Mempool = nil
	txs := make([][]byte, len(pend))
	for i, p := range pend {
		txs[i] = p.bytes
	}
	spec := d.MakeBlock(t, proposer, votes, evidence, txs)

	bo := s.newBlockObs(spec, pend, st)
	ph := bo.phases()
	var appPre, idxPre *simdb.DB
	if st.CrashAt != 0 {
		// record the database writes of Commit so that a crash image can be rebuilt afterwards
		inner := ph.BeforeCommit
		ph.BeforeCommit = func() bool {
			if inner != nil && !inner() {
				return false
			}
			disks := s.node.Disks
			appPre, idxPre = disks.App.Snapshot(), disks.Index.Snapshot()
			disks.App.TakeLog()
			disks.App.Logging = true
			return true
		}
	}
	res := ExecBlock(s.node, spec, ph)
	if res == nil {
		return
	}
	d.Advance(spec, res)
	s.results[h] = res
	if appPre != nil {
		defer s.crashDuringCommit(spec, res, appPre, idxPre, st.CrashAt)
	}
	if os.Getenv("SIM_TRACE") != "" {
		for i, tx := range txs {
			s.res.Tracef("   h=%d tx%d sha=%x own=%v code=%d log=%.80s", h, i, sha256.Sum256(tx), pend[i].id == 0, res.Txs[i].Code, res.Txs[i].Log)
		}
	}
	bo.finish(res)
	s.restartedSinceBlock = false // (until its first Commit a restarted node has no check-state header)
}

// fastForward runs empty blocks, every validator signing, up to height to without observing them
// (no dumps, no oracles), then takes the dump the next observed block starts from.
func (s *Sim) fastForward(to int64) {
	d := s.drv
	for d.Height < to-1 {
		h := d.Height + 1
		t := d.Time.Add(15 * time.Second)
		s.simSeconds += 15
		var votes []abci.VoteInfo
		for _, v := range d.SignersOf(h).Sorted() {
			votes = append(votes, abci.VoteInfo{Validator: abci.Validator{Address: v.Addr, Power: v.Power}, SignedLastBlock: true})
		}
		var proposer []byte
		if props := d.ProposerSet(h).Sorted(); len(props) > 0 {
			proposer = props[int(h)%len(props)].Addr
		}
		spec := d.MakeBlock(t, proposer, votes, nil, nil)
		res := ExecBlock(s.node, spec, nil)
		d.Advance(spec, res)
		s.results[h] = res
	}
	s.committed = TakeDump(s.node, d.Height)
	s.book[d.Height] = s.committed
	s.committedView = s.committed.View()
	s.res.ProbeN("blocks_fast_forwarded", int(d.Height))
	s.execBlock(&Step{Op: "block", DtS: 15})
}

// crashDuringCommit (C07 at application level): the block was executed and committed normally, so
// its outcome is known. The process is then taken to have died after k of the n database writes
// of that Commit: the application database is rebuilt as (state before Commit + first k write
// units), the transaction index is as before the block, the block store has the block (Tendermint
// saves it before executing), and the node is restarted over those disks. What Tendermint's
// handshake does next is the driver's job: an application that reports the previous height gets
// the block again. The run continues on the recovered node.
func (s *Sim) crashDuringCommit(spec *BlockSpec, done *BlockResult, appPre, idxPre *simdb.DB, crashAt int) {
	h := spec.Height
	disks := s.node.Disks
	disks.App.Logging = false
	units := disks.App.TakeLog()
	k := (crashAt - 1) % (len(units) + 1)
	if k < 0 {
		k = -k
	}
	image := appPre
	for _, u := range units[:k] {
		image.ApplyUnit(u)
	}
	s.res.Fault("crash_during_commit")
	s.res.Case(fmt.Sprintf("crash/writes=%d/of=%d", k, len(units)))
	want := s.committed // dump of the uninterrupted commit of h
	prev := s.book[h-1]
	crashed := &Disks{App: image, Index: idxPre, Blocks: disks.Blocks, Evidence: disks.Evidence}
	s.node = s.node.Restart(crashed)
	got := s.node.App.LastBlockHeight()
	subject := fmt.Sprintf("after-%d-of-%d-writes", k, len(units))
	if k == 0 {
		subject = "before-first-write"
	} else if k == len(units) {
		subject = "after-last-write"
	} else {
		subject = "mid-commit"
	}
	switch got {
	case h:
		after := TakeDump(s.node, h)
		if want != nil {
			if ch := Diff(want, after); len(ch) > 0 {
				s.violate("C07", "recovered-state", subject, fmt.Sprintf("crash after %d of %d writes of the commit of block %d: the reopened node reports height %d but its state differs from the committed one: %s (+%d more)", k, len(units), h, h, ch[0], len(ch)-1))
			}
		}
		if !bytes.Equal(s.node.App.LastCommitID().Hash, done.AppHash) {
			s.violate("C07", "recovered-app-hash", subject, fmt.Sprintf("crash after %d of %d writes of the commit of block %d: reopened app hash %x, committed %x", k, len(units), h, s.node.App.LastCommitID().Hash, done.AppHash))
		}
		// the handshake re-indexes the block from the stored responses
		IndexBlock(s.node, spec, done)
		s.res.Probe("crash_recovered_at_new_height")
		s.restartedSinceBlock = true
	case h - 1:
		if prev != nil {
			if ch := Diff(prev, TakeDump(s.node, h-1)); len(ch) > 0 {
				s.violate("C07", "recovered-state", subject, fmt.Sprintf("crash after %d of %d writes of the commit of block %d: the reopened node reports height %d but its state differs from what block %d committed: %s (+%d more)", k, len(units), h, h-1, h-1, ch[0], len(ch)-1))
			}
		}
		again := ExecBlock(s.node, spec, nil)
		if again == nil || again.Digest() != done.Digest() {
			d := "<nil>"
			if again != nil {
				d = again.Digest()
			}
			s.violate("C07", "re-execution-diverged", subject, fmt.Sprintf("crash after %d of %d writes of the commit of block %d: re-executing the block on the reopened node gives %s, the uninterrupted run %s", k, len(units), h, clip(d), clip(done.Digest())))
		} else if want != nil {
			if ch := Diff(want, TakeDump(s.node, h)); len(ch) > 0 {
				s.violate("C07", "re-execution-diverged", subject, fmt.Sprintf("crash after %d of %d writes of the commit of block %d: same results but the state after re-execution differs: %s (+%d more)", k, len(units), h, ch[0], len(ch)-1))
			}
		}
		s.res.Probe("crash_recovered_at_previous_height")
	default:
		s.violate("C07", "recovered-height", subject, fmt.Sprintf("crash after %d of %d writes of the commit of block %d: the reopened node reports height %d", k, len(units), h, got))
	}
	s.checkUpgradeGlobals("after-restart")
}

func (s *Sim) restart() {
	s.res.Fault("restart")
	s.restartedSinceBlock = true
	before := s.committed
	s.node = s.node.Restart(nil)
	after := TakeDump(s.node, s.drv.Height)
	// C04 at application level: the reopened state is the committed state
	if before != nil {
		if ch := Diff(before, after); len(ch) > 0 {
			s.violate("C04", "restart-state", ch[0].Store, fmt.Sprintf("after a clean restart at height %d the state differs from the committed one: %s (+%d more)", s.drv.Height, ch[0], len(ch)-1))
		}
	}
	if got := s.node.App.LastBlockHeight(); got != s.drv.Height {
		s.violate("C04", "restart-height", "app", fmt.Sprintf("restarted node reports height %d, committed %d", got, s.drv.Height))
	}
	s.checkUpgradeGlobals("after-restart")
	if s.prop == "C42" {
		s.checkSearch("after-restart")
	}
}

func sortedKeys(m map[string]int64) []string {
	k := make([]string, 0, len(m))
	for x := range m {
		k = append(k, x)
	}
	sort.Strings(k)
	return k
}

// servicerKeys: the node keys this process serves relays for (lean pocket): every genesis node,
// every spare key (it may stake as a node later) and one key that never stakes.
func servicerKeys(cfg *Config) []int {
	var out []int
	for i := 0; i < cfg.NNodes; i++ {
		out = append(out, nodeBase+i)
	}
	for i := 0; i < cfg.NSpare; i++ {
		out = append(out, spareBase+i)
	}
	return append(out, 991)
}
