package chainsim

// The relay half: a gateway actor dispatches and sends relays for staked applications to the
// servicers this node runs, the node's own SendClaimTx/SendProofTx are called at schedule-chosen
// points, adversaries submit altered relays, claims and proofs. Oracles: C26 (reward split), C29
// (proofs for committed relays verify), C30 (forgeries fail), C31 (leaf unpredictable at claim
// time), C32 (claim life cycle), C33 (sessions), C35 (relay authorisation).

import (
	"crypto/sha256"
	"encoding/hex"
	"encoding/json"
	"fmt"
	nodesTypes "github.com/pokt-network/pocket-core/x/nodes/types"
	"golang.org/x/crypto/sha3"
	"io"
	"math"
	"math/big"
	"net/http"
	"sort"
	"strings"

	"github.com/pokt-network/pocket-core/codec"
	sdk "github.com/pokt-network/pocket-core/types"
	pocket "github.com/pokt-network/pocket-core/x/pocketcore"
	pc "github.com/pokt-network/pocket-core/x/pocketcore/types"
	abci "github.com/tendermint/tendermint/abci/types"
	tmtypes "github.com/tendermint/tendermint/types"

	"github.com/pokt-network/pocket-core/app"
	"github.com/pokt-network/pocket-core/x/auth"
	authTypes "github.com/pokt-network/pocket-core/x/auth/types"
)

// ---------------------------------------------------------------- hosted chain endpoint (N8)

type hostedRT struct{}

func (hostedRT) RoundTrip(req *http.Request) (*http.Response, error) {
	body := `{"jsonrpc":"2.0","id":1,"result":"0x1"}`
	return &http.Response{StatusCode: 200, Status: "200 OK", Proto: "HTTP/1.1", ProtoMajor: 1, ProtoMinor: 1,
		Header: http.Header{"Content-Type": []string{"application/json"}}, Body: io.NopCloser(strings.NewReader(body)), Request: req}, nil
}

func init() { http.DefaultTransport = hostedRT{} }

// ---------------------------------------------------------------- helpers

func (s *Sim) sessionHeightAt(h int64) int64 {
	bps := int64(4)
	if v := s.committedView; v != nil {
		if x, ok := v.ParamInt("pos/BlocksPerSession"); ok && x > 0 {
			bps = x
		}
	}
	if h%bps == 0 {
		return h - bps + 1
	}
	return (h/bps)*bps + 1
}

func (s *Sim) bpsAt(h int64) int64 {
	if d, ok := s.book[h]; ok {
		if x, ok := d.View().ParamInt("pos/BlocksPerSession"); ok && x > 0 {
			return x
		}
	}
	return s.cfg.BlocksPerSession
}

func (s *Sim) viewAt(h int64) *View {
	if v, ok := s.viewCache[h]; ok {
		return v
	}
	d, ok := s.book[h]
	if !ok {
		return nil
	}
	v := d.View()
	if s.viewCache == nil {
		s.viewCache = map[int64]*View{}
	}
	s.viewCache[h] = v
	return v
}

func (s *Sim) makeAAT(appKey, clientKey int, sigTreat string) pc.AAT {
	ks := s.cfg.KeySeed
	ap, cl := KeyFor(ks, appKey), KeyFor(ks, clientKey)
	aat := pc.AAT{Version: "0.0.1", ApplicationPublicKey: ap.PublicKey().RawString(), ClientPublicKey: cl.PublicKey().RawString()}
	sig, _ := ap.Sign(aat.Hash())
	if sigTreat == "token_sig" {
		sig[7] ^= 0x10
	}
	aat.ApplicationSignature = hex.EncodeToString(sig)
	return aat
}

// makeRelay builds a relay; mut alters exactly one aspect of an otherwise valid relay.
func (s *Sim) makeRelay(appKey int, chain string, sessionHeight int64, servicerKey int, entropy int64, mut string) pc.Relay {
	ks := s.cfg.KeySeed
	clientKey := appKey
	aatTreat := ""
	if mut == "token_sig" {
		aatTreat = mut
	}
	tokenApp := appKey
	if mut == "unstaked_app" {
		tokenApp = 990 // a key that never staked an application
		clientKey = tokenApp
	}
	aat := s.makeAAT(tokenApp, clientKey, aatTreat)
	r := pc.Relay{
		Payload: pc.Payload{Data: fmt.Sprintf(`{"jsonrpc":"2.0","method":"eth_blockNumber","params":[],"id":%d}`, entropy), Method: "POST"},
		Meta:    pc.RelayMeta{BlockHeight: s.drv.Height},
		Proof: pc.RelayProof{Entropy: entropy, SessionBlockHeight: sessionHeight, ServicerPubKey: KeyFor(ks, servicerKey).PublicKey().RawString(),
			Blockchain: chain, Token: aat},
	}
	switch mut {
	case "chain":
		r.Proof.Blockchain = "00aa"
	case "session_height":
		r.Proof.SessionBlockHeight = sessionHeight + s.bpsAt(s.drv.Height)
	case "session_height_inside":
		// the last block of the previous session: within the height range a node with a session
		// sync allowance accepts, but no session starts there
		if s.bpsAt(s.drv.Height) >= 2 && sessionHeight > 2 {
			r.Proof.SessionBlockHeight = sessionHeight - 1
		} else {
			r.Proof.SessionBlockHeight = sessionHeight + s.bpsAt(s.drv.Height)
		}
	case "meta_height":
		r.Meta.BlockHeight = s.drv.Height + int64(s.cfg.ClientBlockSyncAllowance) + 5
	case "servicer":
		// a key this process does serve but which is not the session's servicer we picked
		r.Proof.ServicerPubKey = KeyFor(ks, 991).PublicKey().RawString()
	}
	r.Proof.RequestHash = r.RequestHashString()
	if mut == "request_hash" {
		r.Payload.Data += " "
	}
	signer := KeyFor(ks, clientKey)
	if mut == "client_sig_other_key" {
		signer = KeyFor(ks, 992)
	}
	sig, _ := signer.Sign(r.Proof.Hash())
	if mut == "client_sig" {
		sig[9] ^= 0x04
	}
	r.Proof.Signature = hex.EncodeToString(sig)
	return r
}

func (s *Sim) evidenceCount(servicerKey int, header pc.SessionHeader) (int64, bool) {
	addr := s.key(servicerKey).String()
	pn, ok := pc.GlobalPocketNodes[addr]
	if !ok {
		return 0, false
	}
	ev, err := pc.GetEvidence(header, pc.RelayEvidence, sdk.ZeroInt(), pn.EvidenceStore)
	if err != nil {
		return 0, true
	}
	return ev.NumOfProofs, true
}

// ---------------------------------------------------------------- dispatch + relays (C33, C35)

var relayMutations = []string{"token_sig", "client_sig", "client_sig_other_key", "request_hash", "servicer", "chain", "session_height", "meta_height", "unstaked_app", "session_height_inside"}

func (s *Sim) doRelays(st *Step) {
	if s.committedView == nil {
		return
	}
	appKey := st.From
	appAddr := s.key(appKey).String()
	chain := "0001"
	if len(st.Chains) > 0 {
		chain = st.Chains[0]
	}
	h := s.drv.Height
	sh := s.sessionHeightAt(h)
	header := pc.SessionHeader{ApplicationPubKey: KeyFor(s.cfg.KeySeed, appKey).PublicKey().RawString(), Chain: chain, SessionBlockHeight: sh}
	s.node.Tm.CatchingUp = false
	_, cached := pc.GetSession(header, pc.GlobalSessionCache)
	disp, err := s.node.App.HandleDispatch(header)
	s.res.Fault("offchain_dispatch")
	s.checkDispatch(header, appAddr, disp, err, !cached)
	if err != nil || disp == nil {
		return
	}
	// pick a session node this process serves
	servicer := -1
	for _, n := range disp.Session.SessionNodes {
		if i := s.keyIndexOf(n.GetAddress().String()); i >= 0 {
			if _, ok := pc.GlobalPocketNodes[n.GetAddress().String()]; ok {
				servicer = i
				break
			}
		}
	}
	if servicer < 0 {
		s.res.Probe("no_local_servicer_in_session")
		return
	}
	// An application whose per-node allowance rounds to zero makes Relay.Validate call
	// GetTotalProofs with max 0, which ends in log.Fatalf: the node process exits on a client
	// request. No listed property covers that crash; the gateway avoids it and counts it.
	if start := s.viewAt(sh); start != nil {
		if a, ok := start.Apps[appAddr]; ok && len(a.Chains) > 0 {
			cnt, _ := start.ParamInt("pocketcore/SessionNodeCount")
			if cnt > 0 && maxPossibleRelays(a.MaxRelays, int64(len(a.Chains)), cnt) < 1 {
				s.res.Probe("relay_skipped_zero_allowance_would_kill_node")
				return
			}
		}
	}
	n := int(st.Amount)
	if n <= 0 {
		n = 1
	}
	for i := 0; i < n; i++ {
		s.relayEntropy++
		mut := ""
		if st.Action != "" && i == n/2 {
			mut = st.Action
		}
		before, _ := s.evidenceCount(servicer, header)
		relay := s.makeRelay(appKey, chain, sh, servicer, s.relayEntropy, mut)
		resp, _, rerr := s.node.App.HandleRelay(relay)
		after, _ := s.evidenceCount(servicer, header)
		s.res.Fault("offchain_relay")
		if mut != "" {
			s.res.Probe("forged_relay_" + mut)
			// ---- C35: an altered relay is neither served nor recorded
			if rerr == nil && resp != nil {
				s.violate("C35", "altered-relay-served", mut, fmt.Sprintf("height %d: relay for app %s chain %s with altered %s was answered", h, appAddr, chain, mut))
			}
			if after != before {
				s.violate("C35", "altered-relay-recorded", mut, fmt.Sprintf("height %d: relay with altered %s changed the stored evidence %d -> %d", h, mut, before, after))
			}
			s.res.Case("relay/forged/" + mut)
			continue
		}
		if rerr != nil {
			// an honest relay may be refused for reasons the statement does not cover (allowance
			// reached, evidence sealed, node jailed mid-session); those are counted, not judged
			s.res.Probe("honest_relay_refused")
			s.res.Case("relay/refused/" + firstWord(rerr.Error()))
			continue
		}
		s.res.Probe("relay_served")
		if after != before+1 {
			s.violate("C35", "served-relay-not-recorded", "control", fmt.Sprintf("height %d: an answered relay changed the stored evidence %d -> %d", h, before, after))
		}
		if resp == nil || resp.Signature == "" {
			s.violate("C35", "served-relay-unsigned", "control", fmt.Sprintf("height %d: relay answered without a signature", h))
		}
		key := header.HashString() + "/" + s.key(servicer).String()
		s.served[key]++
		if len(s.pastServed) == 0 || s.pastServed[len(s.pastServed)-1].session != sh {
			s.pastServed = append(s.pastServed, servedTuple{app: appKey, chain: chain, session: sh, servicer: servicer, at: h})
		}
	}
	s.res.Case(fmt.Sprintf("relays/n=%d/mut=%v", n, st.Action != ""))
	s.staleRelayThroughQueryRoute(sh)
}

// setMetaHeight gives a relay another client-side block height; the request hash covers it, and
// the client signature covers the request hash.
func (s *Sim) setMetaHeight(r *pc.Relay, clientKey int, h int64) {
	r.Meta.BlockHeight = h
	r.Proof.Signature = ""
	r.Proof.RequestHash = r.RequestHashString()
	sig, _ := KeyFor(s.cfg.KeySeed, clientKey).Sign(r.Proof.Hash())
	r.Proof.Signature = hex.EncodeToString(sig)
}

type servedTuple struct {
	app, servicer int
	chain         string
	session, at   int64
}

// staleRelayThroughQueryRoute (C35): the relay service is also registered as an ABCI query
// (custom/pocketcore/relay), and an ABCI query names the height it wants to be answered at. A fresh
// relay for a session of the past, offered through that route at a height of that session, must be
// refused like the same relay offered to the node directly: the session is no longer the latest.
func (s *Sim) staleRelayThroughQueryRoute(currentSession int64) {
	for _, t := range s.pastServed {
		if t.session >= currentSession || s.viewAt(t.at) == nil {
			continue
		}
		s.relayEntropy++
		relay := s.makeRelay(t.app, t.chain, t.session, t.servicer, s.relayEntropy, "")
		s.setMetaHeight(&relay, t.app, t.at)
		_, _, direct := s.node.App.HandleRelay(relay)
		if direct == nil {
			return // the node itself still takes it (tolerances allow it): nothing to compare
		}
		s.relayEntropy++
		relay = s.makeRelay(t.app, t.chain, t.session, t.servicer, s.relayEntropy, "")
		s.setMetaHeight(&relay, t.app, t.at)
		header := pc.SessionHeader{ApplicationPubKey: KeyFor(s.cfg.KeySeed, t.app).PublicKey().RawString(), Chain: t.chain, SessionBlockHeight: t.session}
		before, _ := s.evidenceCount(t.servicer, header)
		bz, err := pc.ModuleCdc.MarshalJSON(pc.QueryRelayParams{Relay: relay})
		if err != nil {
			return
		}
		r := s.node.App.Query(abci.RequestQuery{Path: "custom/pocketcore/relay", Data: bz, Height: t.at})
		after, _ := s.evidenceCount(t.servicer, header)
		s.res.Fault("relay_for_a_past_session_through_the_query_route")
		s.res.Tracef("   stale-relay-via-query h=%d at=%d session=%d code=%d/%s log=%.200s direct=%v", s.drv.Height, t.at, t.session, r.Code, r.Codespace, r.Log, direct)
		if r.Code == 0 || after != before {
			s.violate("C35", "relay-for-a-past-session-served", "query-route-at-a-past-height", fmt.Sprintf("height %d: a relay for session height %d (the latest session starts at %d), refused by the node when offered directly (%v), was answered with code %d through the ABCI query custom/pocketcore/relay at height %d; stored evidence %d -> %d", s.drv.Height, t.session, currentSession, firstWord(direct.Error()), r.Code, t.at, before, after))
		}
		return
	}
}

func firstWord(s string) string {
	f := strings.Fields(s)
	if len(f) > 4 {
		f = f[:4]
	}
	return strings.Join(f, "_")
}

func (s *Sim) checkDispatch(header pc.SessionHeader, appAddr string, disp *pc.DispatchResponse, err error, fresh bool) {
	h := s.drv.Height
	start := s.viewAt(header.SessionBlockHeight)
	cur := s.committedView
	if start == nil || cur == nil {
		return
	}
	count, _ := start.ParamInt("pocketcore/SessionNodeCount")
	if err != nil || disp == nil {
		if err != nil && (strings.Contains(err.Error(), "insufficient") || strings.Contains(err.Error(), "less than the minimum session nodes")) {
			// fails only when fewer eligible nodes exist
			eligible := 0
			maxChains, _ := start.ParamInt("pos/MaximumChains")
			for a, v := range start.Validators {
				c, ok := cur.Validators[a]
				if v.Status == sdk.Staked && contains(v.Chains, header.Chain) && ok && !c.Jailed && (!featureOn(codec.EnforceMaxChainsUpdateKey, h) || int64(len(c.Chains)) <= maxChains) && contains(c.Chains, header.Chain) {
					eligible++
				}
			}
			if int64(eligible) >= count {
				s.violate("C33", "insufficient-nodes-despite-eligible", "dispatch", fmt.Sprintf("height %d: session %s/%s@%d failed with insufficient nodes although %d eligible nodes exist (need %d)", h, appAddr, header.Chain, header.SessionBlockHeight, eligible, count))
			}
			s.res.Probe("dispatch_insufficient_nodes")
		}
		return
	}
	nodes := disp.Session.SessionNodes
	var addrs []string
	seen := map[string]bool{}
	for _, n := range nodes {
		a := n.GetAddress().String()
		addrs = append(addrs, a)
		if seen[a] {
			s.violate("C33", "session-node-repeated", "dispatch", fmt.Sprintf("height %d: session %s/%s@%d lists %s twice", h, appAddr, header.Chain, header.SessionBlockHeight, a))
		}
		seen[a] = true
		sv, ok := start.Validators[a]
		if !ok || sv.Status != sdk.Staked || !contains(sv.Chains, header.Chain) {
			s.violate("C33", "session-node-not-staked-for-chain-at-start", "dispatch", fmt.Sprintf("height %d: session %s/%s@%d lists %s which was not staked for the chain at the session start", h, appAddr, header.Chain, header.SessionBlockHeight, a))
		}
		if fresh {
			// generated by this call (no cached copy): the reference height is the committed height
			// the call ran at, and every node must be eligible there
			s.res.Probe("session_generated_fresh")
			maxChains, _ := start.ParamInt("pos/MaximumChains")
			cv, ok := cur.Validators[a]
			why := ""
			switch {
			case !ok:
				why = "no-longer-exists"
			case cv.Jailed:
				why = "jailed"
			case !contains(cv.Chains, header.Chain):
				why = "left-the-chain"
			case featureOn(codec.EnforceMaxChainsUpdateKey, h) && int64(len(cv.Chains)) > maxChains:
				why = "over-the-chain-limit"
			}
			if why != "" {
				s.violate("C33", "session-node-ineligible-at-reference-height", why, fmt.Sprintf("height %d: session %s/%s@%d, generated at height %d, lists %s which is %s at that height", h, appAddr, header.Chain, header.SessionBlockHeight, h, a, why))
			}
			if ok && h > header.SessionBlockHeight && (sv.Jailed != cv.Jailed || fmt.Sprint(sv.Chains) != fmt.Sprint(cv.Chains)) {
				s.res.Probe("session_node_changed_since_session_start")
			}
		}
		if cv, ok := cur.Validators[a]; ok && sv.Jailed && cv.Jailed {
			s.violate("C33", "session-node-jailed", "dispatch", fmt.Sprintf("height %d: session %s/%s@%d lists %s which is jailed at the session start and now", h, appAddr, header.Chain, header.SessionBlockHeight, a))
		}
	}
	if fresh && h > header.SessionBlockHeight {
		for a, sv := range start.Validators {
			if cv, ok := cur.Validators[a]; sv.Status == sdk.Staked && contains(sv.Chains, header.Chain) && (!ok || cv.Jailed != sv.Jailed || !contains(cv.Chains, header.Chain)) {
				s.res.Probe("fresh_session_with_candidate_changed_since_start")
				break
			}
		}
	}
	if int64(len(nodes)) != count {
		s.violate("C33", "session-node-count", "dispatch", fmt.Sprintf("height %d: session %s/%s@%d has %d nodes, SessionNodeCount %d", h, appAddr, header.Chain, header.SessionBlockHeight, len(nodes), count))
	}
	// same inputs (incl. the reference height) => same nodes, on every call and after restarts
	key := fmt.Sprintf("%s@%d", header.HashString(), h)
	list := strings.Join(addrs, ",")
	if prev, ok := s.sessions[key]; ok && prev != list {
		s.violate("C33", "session-not-deterministic", "dispatch", fmt.Sprintf("height %d: session %s/%s@%d answered %s earlier and %s now", h, appAddr, header.Chain, header.SessionBlockHeight, prev, list))
	}
	s.sessions[key] = list
	if s.members == nil {
		s.members = map[string]map[string]bool{}
		s.memberHeaders = map[string]pc.SessionHeader{}
	}
	hk := header.HashString()
	if s.members[hk] == nil {
		s.members[hk] = map[string]bool{}
		s.memberHeaders[hk] = header
	}
	for _, a := range addrs {
		s.members[hk][a] = true
	}
	s.res.Probe("dispatch_ok")
	s.res.Case(fmt.Sprintf("dispatch/nodes=%d/eligible=%d", len(nodes), len(start.Validators)))
}

// ---------------------------------------------------------------- auto claim / proof (N5)

// autoClaims calls what the EndBlock goroutine calls, at a point the schedule chose.
func (s *Sim) autoClaims(st *Step) {
	if s.committedView == nil {
		return
	}
	n := s.node
	k := n.App.VerifPocketKeeper()
	ctx, err := n.App.NewContext(n.App.LastBlockHeight())
	if err != nil {
		return
	}
	s.node.Tm.CatchingUp = false
	addrs := make([]string, 0, len(pc.GlobalPocketNodes))
	for a := range pc.GlobalPocketNodes {
		addrs = append(addrs, a)
	}
	sort.Strings(addrs)
	before := len(n.Tm.Mempool)
	for _, a := range addrs {
		pn := pc.GlobalPocketNodes[a]
		if st.Action == "dup-evidence" {
			s.duplicateEvidence(pn)
		}
		if st.Action != "proofs-only" {
			if st.Action != "dup-evidence" {
				s.sweepEvidenceBeforeClaim(pn)
			}
			k.SendClaimTx(ctx, k, n.Tm, pn, pocket.ClaimTx)
		}
		if st.Action != "claims-only" {
			k.SendProofTx(ctx, n.Tm, pn, pocket.ProofTx)
		}
	}
	if strings.HasPrefix(st.Action, "forge:") {
		s.forgePending(strings.TrimPrefix(st.Action, "forge:"), before)
	}
	if st.Action == "outsider-claim" {
		s.outsiderClaims()
	}
	if st.Action == "mistype" || st.Action == "shift-height" {
		s.reissuePending(st.Action, before)
	}
	if st.Action == "early-proof" {
		s.earlyProofs()
	}
	s.res.Fault("auto_claim_proof_pass")
	s.res.ProbeN("own_txs_broadcast", len(n.Tm.Mempool)-before)
}

// outsiderClaims (C32): a servicer of this process that is staked for the chain but was NOT
// selected into a session claims relays for it (a made-up root and count). The claim must be
// refused whatever this node's caches hold.
func (s *Sim) outsiderClaims() {
	if s.committedView == nil || len(s.members) == 0 {
		return
	}
	h := s.drv.Height
	hks := make([]string, 0, len(s.members))
	for k := range s.members {
		hks = append(hks, k)
	}
	sort.Strings(hks)
	made := 0
	for _, hk := range hks {
		header := s.memberHeaders[hk]
		start := s.viewAt(header.SessionBlockHeight)
		if start == nil || made >= 2 {
			continue
		}
		bps, _ := start.ParamInt("pos/BlocksPerSession")
		window, _ := start.ParamInt("pocketcore/ClaimSubmissionWindow")
		if h+1 <= header.SessionBlockHeight+bps-1 || h+1 > header.SessionBlockHeight+window*bps {
			continue // not claimable in the next block
		}
		outsider := -1
		for _, a := range sortedAddrs(start.Validators) {
			v := start.Validators[a]
			if v.Status != sdk.Staked || v.Jailed || !contains(v.Chains, header.Chain) || s.members[hk][a] {
				continue
			}
			if _, local := pc.GlobalPocketNodes[a]; !local {
				continue
			}
			if i := s.keyIndexOf(a); i >= 0 {
				outsider = i
				break
			}
		}
		if outsider < 0 {
			continue
		}
		minProofs, _ := start.ParamInt("pocketcore/MinimumNumberOfProofs")
		total := minProofs + 3
		if total < 6 {
			total = 6
		}
		root := pc.HashRange{Hash: make([]byte, 32), Range: pc.Range{Lower: 0, Upper: 1 << 40}}
		for i := range root.Hash {
			root.Hash[i] = byte(i*7 + int(h))
		}
		priv := KeyFor(s.cfg.KeySeed, outsider)
		m := pc.MsgClaim{SessionHeader: header, MerkleRoot: root, TotalProofs: total, FromAddress: sdk.Address(priv.PublicKey().Address()), EvidenceType: pc.RelayEvidence}
		fee := sdk.NewCoins(sdk.NewCoin(sdk.DefaultStakeDenom, sdk.NewInt(baseFee)))
		s.relayEntropy++
		signBytes, serr := auth.StdSignBytes(ChainID, s.relayEntropy, fee, &m, "")
		if serr != nil {
			continue
		}
		sig, _ := priv.Sign(signBytes)
		tx := authTypes.NewTx(&m, fee, authTypes.StdSignature{Signature: sig, PublicKey: priv.PublicKey()}, "", s.relayEntropy)
		bz, eerr := auth.DefaultTxEncoder(app.Codec())(tx, -1)
		if eerr != nil {
			continue
		}
		s.node.Tm.Mempool = append(s.node.Tm.Mempool, bz)
		if s.outsider == nil {
			s.outsider = map[string]bool{}
		}
		s.outsider[claimKeyOf(sdk.Address(priv.PublicKey().Address()).String(), header)] = true
		s.res.Fault("claim_by_node_outside_the_session")
		made++
	}
}

// sweepEvidenceBeforeClaim (C29): for every evidence this servicer is about to claim, every leaf
// index must produce a proof that verifies against the root built from the same set.
func (s *Sim) sweepEvidenceBeforeClaim(pn *pc.PocketNode) {
	it := pc.EvidenceIterator(pn.EvidenceStore)
	defer it.Close()
	for ; it.Valid(); it.Next() {
		ev := it.Value()
		n := len(ev.Proofs)
		if n < 5 || ev.EvidenceType != pc.RelayEvidence {
			continue
		}
		// the statement is about sets of distinct relay proofs; a cheating servicer's duplicated
		// relay belongs to C30
		distinct := map[string]bool{}
		for _, p := range ev.Proofs {
			distinct[p.HashString()] = true
		}
		if len(distinct) != n {
			continue
		}
		height := ev.SessionHeader.SessionBlockHeight
		proofs := make([]pc.Proof, n)
		copy(proofs, ev.Proofs)
		root, _ := pc.GenerateRoot(height, proofs)
		levels := int(math.Ceil(math.Log2(float64(n))))
		for idx := 0; idx < n; idx++ {
			cp := make([]pc.Proof, n)
			copy(cp, ev.Proofs)
			mp, leaf := pc.GenerateProofs(height, cp, idx)
			if len(mp.HashRanges) != levels {
				s.violate("C29", "level-count", "sweep", fmt.Sprintf("evidence of %d relays, index %d: proof has %d levels, ceil(log2(n)) = %d", n, idx, len(mp.HashRanges), levels))
				break
			}
			if ok, _ := mp.Validate(height, root, leaf, levels); !ok {
				s.violate("C29", "generated-proof-does-not-verify", "sweep", fmt.Sprintf("evidence of %d relays (session height %d), index %d: the generated proof does not verify against the generated root", n, height, idx))
				break
			}
		}
		s.res.Probe("evidence_swept")
		s.res.Case(fmt.Sprintf("sweep/n=%d", n))
	}
}

// ---------------------------------------------------------------- own transactions (claims, proofs)

type claimInst struct {
	key      string
	servicer string
	header   pc.SessionHeader
	total    int64
	accepted int64 // height
	minted   bool
	root     pc.HashRange
}

func (s *Sim) checkOwnTx(b *blockObs, i int, tx []byte, r abci.ResponseDeliverTx, before, after *Dump, diff []Change) {
	h := b.spec.Height
	if h <= s.cfg.UpgradeHeight {
		return
	}
	dec, derr := pocketTxDecode(tx, h)
	if derr != nil {
		return
	}
	vb, va := before.View(), after.View()
	switch m := dec.(type) {
	case pc.MsgClaim:
		s.checkClaimTx(b, m, r, vb, va, diff)
	case pc.MsgProof:
		s.checkProofTx(b, m, r, vb, va, diff, s.forged[string(tmtypes.Tx(tx).Hash())])
	}
}

func claimKeyOf(addr string, header pc.SessionHeader) string {
	return addr + "/" + header.HashString()
}

func (s *Sim) checkClaimTx(b *blockObs, m pc.MsgClaim, r abci.ResponseDeliverTx, vb, va *View, diff []Change) {
	h := b.spec.Height
	servicer := m.FromAddress.String()
	// was the claim stored?
	stored := false
	for k, c := range va.Claims {
		if c.FromAddress.String() == servicer && c.SessionHeader.HashString() == m.SessionHeader.HashString() && c.EvidenceType == m.EvidenceType {
			if old, ok := vb.Claims[k]; !ok || old.TotalProofs != c.TotalProofs || !old.MerkleRoot.Equal(c.MerkleRoot) {
				stored = true
			}
		}
	}
	s.res.Case(fmt.Sprintf("claim/accepted=%v/code=%d", stored, r.Code))
	if !stored {
		return
	}
	s.res.Probe("claim_accepted")
	sh := m.SessionHeader.SessionBlockHeight
	start := s.viewAt(sh)
	if start == nil {
		return
	}
	bps, _ := start.ParamInt("pos/BlocksPerSession")
	window, _ := start.ParamInt("pocketcore/ClaimSubmissionWindow")
	sessionEnd := sh + bps - 1
	proofHeight := sh + window*bps
	// ---- C32: admission conditions
	if bps > 0 && (sh-1)%bps != 0 {
		s.violate("C32", "claim-for-height-that-starts-no-session", "claim", fmt.Sprintf("height %d: claim of %d relays accepted for session block height %d; with %d blocks per session, sessions start at heights 1, %d, %d, ...", h, m.TotalProofs, sh, bps, 1+bps, 1+2*bps))
	}
	if m.EvidenceType != pc.RelayEvidence {
		s.res.Probe("claim_typed_challenge_accepted")
	}
	if h <= sessionEnd {
		s.violate("C32", "claim-before-session-end", "claim", fmt.Sprintf("height %d: claim for session %d..%d accepted", h, sh, sessionEnd))
	}
	curBps, _ := vb.ParamInt("pos/BlocksPerSession")
	curWindow, _ := vb.ParamInt("pocketcore/ClaimSubmissionWindow")
	if h > sh+curWindow*curBps {
		s.violate("C32", "claim-after-maturity", "claim", fmt.Sprintf("height %d: claim for session height %d accepted after the submission window (%d sessions of %d blocks)", h, sh, curWindow, curBps))
	}
	appAddr := ""
	if pk, err := hex.DecodeString(m.SessionHeader.ApplicationPubKey); err == nil {
		appAddr = sdk.Address(addressFromEd25519(pk)).String()
	}
	app, ok := start.Apps[appAddr]
	if ok && app.Status == sdk.Unstaking {
		s.res.Probe("claim_for_unstaking_app") // its tokens are still staked; not judged
	}
	if !ok {
		s.violate("C32", "claim-for-unstaked-app", "claim", fmt.Sprintf("height %d: claim accepted for application %s which had no stake at session height %d", h, appAddr, sh))
	} else {
		cnt, _ := start.ParamInt("pocketcore/SessionNodeCount")
		if len(app.Chains) > 0 && cnt > 0 && featureOn(codec.MaxRelayProtKey, h) {
			allow := maxPossibleRelays(app.MaxRelays, int64(len(app.Chains)), cnt)
			if m.TotalProofs > allow {
				s.violate("C32", "claim-over-allowance", "claim", fmt.Sprintf("height %d: claim of %d relays accepted, the application allows this node %d", h, m.TotalProofs, allow))
			} else if sdk.NewInt(m.TotalProofs).Mul(sdk.NewInt(int64(len(app.Chains)) * cnt)).GT(app.MaxRelays) {
				// within the node's share as the chain computes it, but that share is the exact share
				// rounded to the nearest integer: when every node of the session claims it, the
				// session's claims add up to more than the application's allowance
				s.violate("C32", "claim-over-allowance", "share-rounded-up", fmt.Sprintf("height %d: claim of %d relays accepted; the application allows %s relays per session over %d chain(s) and %d nodes, i.e. %s per node and chain: %d nodes claiming %d each exceed the allowance", h, m.TotalProofs, app.MaxRelays, len(app.Chains), cnt, app.MaxRelays.ToDec().Quo(sdk.NewDec(int64(len(app.Chains))*cnt)), cnt, m.TotalProofs))
			}
		}
	}
	if raw, ok := start.Params["pocketcore/SupportedBlockchains"]; ok && !strings.Contains(raw, `"`+m.SessionHeader.Chain+`"`) {
		s.violate("C32", "claim-for-unsupported-chain", "claim", fmt.Sprintf("height %d: claim accepted for chain %s, supported %s", h, m.SessionHeader.Chain, raw))
	}
	if n, ok := start.Validators[servicer]; !ok || n.Status != sdk.Staked || !contains(n.Chains, m.SessionHeader.Chain) {
		s.violate("C32", "claim-from-node-outside-session", "claim", fmt.Sprintf("height %d: claim accepted from %s which was not a staked node for chain %s at session height %d", h, servicer, m.SessionHeader.Chain, sh))
	}
	if mem, known := s.members[m.SessionHeader.HashString()]; known {
		// the node list of a session is fixed by (application, chain, session block hash) and the
		// eligibility of the candidates at the reference height; it is judged only when no candidate's
		// eligibility changed between the session start and its end, so that every reference height
		// gives the list the dispatches showed
		stable := true
		if end := s.viewAt(sessionEnd); end != nil {
			for a, sv := range start.Validators {
				if !contains(sv.Chains, m.SessionHeader.Chain) {
					continue
				}
				ev, ok := end.Validators[a]
				if !ok || ev.Jailed != sv.Jailed || ev.Status != sv.Status || fmt.Sprint(ev.Chains) != fmt.Sprint(sv.Chains) {
					stable = false
				}
			}
		} else {
			stable = false
		}
		if !stable {
			s.res.Probe("claim_membership_not_judged_candidates_changed")
		} else {
			s.res.Probe("claim_membership_judged")
		}
		if stable && !mem[servicer] {
			s.violate("C32", "claim-from-node-outside-session", "not-selected", fmt.Sprintf("height %d: claim accepted from %s, which is staked for chain %s but was not among the nodes of session %d (%d nodes known from dispatch)", h, servicer, m.SessionHeader.Chain, sh, len(mem)))
		}
	}
	// ---- C31: the block hash that selects the leaf must not be public when the claim is accepted.
	// The selecting hash is the LastBlockID of block proofHeight, i.e. the hash of block
	// proofHeight-1, public from the moment that block is proposed.
	if proofHeight-1 <= h {
		subj := "claim-at-proof-height"
		switch {
		case h < proofHeight:
			subj = "claim-one-block-before-proof-height"
		case h > proofHeight:
			// the acceptance rule uses the current parameters, the selecting height those of the
			// session start: after a governance change of the window or the session length the two
			// drift apart (a recorded finding). Without such a change nothing excuses it.
			subj = "claim-after-proof-height"
			if curBps != bps || curWindow != window {
				subj = "claim-after-proof-height(parameters-changed-since-session-start)"
			}
		}
		s.violate("C31", "leaf-selector-known-at-claim-time", subj, fmt.Sprintf("height %d: claim for session height %d accepted; the leaf is selected by the hash of block %d (window %d x %d blocks), which was proposed no later than the claim's block", h, sh, proofHeight-1, window, bps))
	}
	s.res.Case(fmt.Sprintf("claimtiming/%+d", h-proofHeight))
	ck := claimKeyOf(servicer, m.SessionHeader)
	if old, ok := s.claims[ck]; ok && !old.minted {
		s.res.Probe("claim_overwritten")
	}
	s.claims[ck] = &claimInst{key: ck, servicer: servicer, header: m.SessionHeader, total: m.TotalProofs, accepted: h, root: m.MerkleRoot}
}

func maxPossibleRelays(maxRelays sdk.BigInt, chains, nodes int64) int64 {
	return maxRelays.ToDec().Quo(sdk.NewDec(chains)).Quo(sdk.NewDec(nodes)).RoundInt().Int64()
}

func (s *Sim) checkProofTx(b *blockObs, m pc.MsgProof, r abci.ResponseDeliverTx, vb, va *View, diff []Change, forged string) {
	h := b.spec.Height
	leaf := m.GetLeaf()
	if leaf == nil {
		return
	}
	servicer := m.GetSigners()[0].String()
	header := leaf.SessionHeader()
	ck := claimKeyOf(servicer, header)
	inst := s.claims[ck]
	minted := va.SupplyAmt.Sub(vb.SupplyAmt)
	burned := minted.IsNegative()
	s.res.Case(fmt.Sprintf("proof/code=%d/minted=%v", r.Code, minted.IsPositive()))
	s.res.Tracef("   proof h=%d code=%d minted=%s supply %s -> %s forged=%q inst=%v diff=%d rscal=%v params=%v %v %v %v %v node=%+v", h, r.Code, minted, vb.SupplyAmt, va.SupplyAmt, forged, inst != nil, len(diff), featureOn(codec.RSCALKey, h), vb.Params["pos/ServicerStakeFloorMultiplier"], vb.Params["pos/ServicerStakeWeightMultiplier"], vb.Params["pos/ServicerStakeWeightCeiling"], vb.Params["pos/ServicerStakeFloorMultiplierExponent"], vb.Params["pos/RelaysToTokensMultiplier"], vb.Validators[servicer])
	// ---- C25: a burn applied while a proof is processed (replay penalty, challenge) removes tokens
	// from the servicer's stake and burns exactly that much, never more than the stake
	if pv, ok := vb.Validators[servicer]; ok {
		nvz, still := va.Validators[servicer]
		removed := pv.StakedTokens
		if still {
			removed = pv.StakedTokens.Sub(nvz.StakedTokens)
		}
		if removed.IsPositive() || burned {
			s.res.Probe("burn_during_proof")
			poolDelta := va.ModuleBalance(nodesTypes.StakedPoolName).Sub(vb.ModuleBalance(nodesTypes.StakedPoolName))
			if !minted.Equal(removed.Neg()) || !poolDelta.Equal(removed.Neg()) {
				s.violate("C25", "burn-vs-removed", "proof-penalty", fmt.Sprintf("height %d: the penalty on %s (stake %s) removed %s from its stake, the node pool changed by %s and the supply by %s", h, servicer, pv.StakedTokens, removed, poolDelta, minted))
			}
			if still && nvz.StakedTokens.IsNegative() {
				s.violate("C25", "slash-exceeds-stake", "proof-penalty", fmt.Sprintf("height %d: node %s stake %s -> %s", h, servicer, pv.StakedTokens, nvz.StakedTokens))
			}
			minStake, _ := va.ParamInt("pos/StakeMinimum")
			if still && featureOn(codec.NonCustodialUpdateKey, h) && nvz.Status == sdk.Staked && nvz.StakedTokens.LT(sdk.NewInt(minStake)) {
				s.res.Probe("penalty_takes_stake_below_minimum")
				if !nvz.Jailed || !va.Waiting[servicer] {
					s.violate("C25", "below-minimum-not-queued", "proof-penalty", fmt.Sprintf("height %d: node %s penalised to %s (minimum %d): jailed=%v queued-to-unstake=%v", h, servicer, nvz.StakedTokens, minStake, nvz.Jailed, va.Waiting[servicer]))
				}
			}
			if removed.Equal(pv.StakedTokens) {
				s.res.Probe("penalty_consumed_whole_stake")
			}
		}
	}
	// ---- C31: no proof is accepted before the block exists whose hash selects the leaf
	if start := s.viewAt(header.SessionBlockHeight); start != nil {
		bps, _ := start.ParamInt("pos/BlocksPerSession")
		window, _ := start.ParamInt("pocketcore/ClaimSubmissionWindow")
		if ph := header.SessionBlockHeight + window*bps; h < ph {
			s.res.Probe("proof_delivered_before_the_proof_height")
			if r.Code == 0 || minted.IsPositive() {
				s.violate("C31", "proof-accepted-before-the-selecting-block-exists", "proof", fmt.Sprintf("height %d: a proof by %s for session height %d returned code %d and minted %s; the leaf is to be selected by the hash of block %d, which does not exist yet (the leaf proven, %d, is one the servicer could choose)", h, servicer, header.SessionBlockHeight, r.Code, minted, ph-1, m.MerkleProof.TargetIndex))
			}
		}
	}
	if forged != "" {
		s.res.Probe("forged_proof_delivered")
		s.res.Case("forged-proof/" + forged)
		// ---- C30: an altered proof is never rewarded
		if minted.IsPositive() {
			s.violate("C30", "forged-proof-rewarded", forged, fmt.Sprintf("height %d: a proof with altered %s by %s for session height %d was rewarded with %s", h, forged, servicer, header.SessionBlockHeight, minted))
		}
		if r.Code == 0 {
			s.violate("C30", "forged-proof-accepted", forged, fmt.Sprintf("height %d: a proof with altered %s returned code 0", h, forged))
		}
		if minted.IsPositive() && inst != nil {
			inst.minted = true
		}
		return
	}
	if zeroWidth(m.MerkleProof) {
		// the servicer counted a relay twice: the path the chain selected runs through a zero-width
		// range and must be refused and reported as a replay
		s.res.Probe("zero_width_path_submitted")
		if c, ok := vb.Claims[claimStoreKey(vb, servicer, header, m.EvidenceType)]; ok {
			s.res.Tracef("   zero-width proof h=%d code=%d claim total=%d rootUpper=%d index=%d target=%v levels=%d ranges=%v", h, r.Code, c.TotalProofs, c.MerkleRoot.Range.Upper, m.MerkleProof.TargetIndex, m.MerkleProof.Target.Range, len(m.MerkleProof.HashRanges), func() []pc.Range {
				var o []pc.Range
				for _, x := range m.MerkleProof.HashRanges {
					o = append(o, x.Range)
				}
				return o
			}())
		}
		s.res.Case("dup-evidence-proof/zero-width")
		if minted.IsPositive() || r.Code == 0 {
			s.violate("C30", "zero-width-range-accepted", "dup-evidence", fmt.Sprintf("height %d: a proof whose path runs through a zero-width range returned code %d and minted %s", h, r.Code, minted))
		} else if _, pending := vb.Claims[claimStoreKey(vb, servicer, header, m.EvidenceType)]; pending && featureOn(codec.ReplayBurnKey, h) && inst != nil && !(r.Codespace == pc.ModuleName && r.Code == uint32(pc.CodeReplayAttackError)) {
			// (only while the claim is still pending: once it expired or was settled the proof is
			// refused as "claim not found" before its path is looked at)
			s.violate("C30", "zero-width-range-not-reported-as-replay", "dup-evidence", fmt.Sprintf("height %d: proof path through a zero-width range answered %d/%s", h, r.Code, r.Codespace))
		}
		return
	}
	if s.dupEvidence[ck] {
		s.res.Case("dup-evidence-proof/path-misses-duplicate")
	}
	if minted.IsPositive() {
		s.res.Probe("relay_reward_minted")
		// ---- C32: paid only for a live claim, at most once per claim
		if inst == nil {
			s.violate("C32", "reward-without-claim", "proof", fmt.Sprintf("height %d: %s minted for a proof by %s with no accepted claim for session height %d", h, minted, servicer, header.SessionBlockHeight))
		} else {
			if inst.minted {
				s.violate("C32", "claim-rewarded-twice", "proof", fmt.Sprintf("height %d: the claim of %s for session height %d (accepted at %d) was rewarded again", h, servicer, header.SessionBlockHeight, inst.accepted))
			}
			inst.minted = true
			// the proof must be for the required index and verify against the claimed root
			levels := int(math.Ceil(math.Log2(float64(inst.total))))
			if ok, _ := m.MerkleProof.Validate(header.SessionBlockHeight, inst.root, leaf, levels); !ok || len(m.MerkleProof.HashRanges) != levels {
				s.violate("C30", "reward-for-unverifiable-proof", "proof", fmt.Sprintf("height %d: reward minted for a proof that does not verify against the claimed root (index %d, levels %d)", h, m.MerkleProof.TargetIndex, len(m.MerkleProof.HashRanges)))
			}
			if m.MerkleProof.TargetIndex >= inst.total || m.MerkleProof.TargetIndex < 0 {
				s.violate("C31", "leaf-index-out-of-range", "proof", fmt.Sprintf("height %d: rewarded proof index %d, claimed relays %d", h, m.MerkleProof.TargetIndex, inst.total))
			}
			// the rewarded leaf is the one the protocol selects: first 8 bytes (big endian) of
			// SHA3-256({"BlockHash": hex hash of the block before the proof height, "Header": session
			// header hash}) modulo the claimed count, computed here from the driver's own block log
			if want, ok := s.selectedLeaf(header, inst.total); ok {
				s.res.Probe("selected_leaf_recomputed")
				if want != m.MerkleProof.TargetIndex {
					s.violate("C31", "rewarded-leaf-is-not-the-selected-one", "proof", fmt.Sprintf("height %d: reward minted for leaf %d of %d (session height %d); the block hash selects leaf %d", h, m.MerkleProof.TargetIndex, inst.total, header.SessionBlockHeight, want))
				}
			}
			if _, still := va.Claims[claimStoreKey(va, servicer, header, m.EvidenceType)]; still {
				s.violate("C32", "claim-survives-reward", "proof", fmt.Sprintf("height %d: the claim of %s for session height %d is still pending after its reward", h, servicer, header.SessionBlockHeight))
			}
			s.checkRewardSplit(b, m, inst, vb, va, minted)
		}
	} else if !burned {
		// no mint: an honest proof for a live claim must not fail with a merkle error (C29)
		if inst != nil && !inst.minted && forged == "" && !s.dupEvidence[ck] {
			if r.Codespace == pc.ModuleName && (r.Code == uint32(pc.CodeInvalidMerkleVerifyError) || r.Code == uint32(pc.CodeInvalidProofsError)) {
				s.violate("C29", "honest-proof-rejected-by-merkle-check", "proof", fmt.Sprintf("height %d: the node's own proof for its claim of %d relays (session height %d) was rejected with %d/%s", h, inst.total, header.SessionBlockHeight, r.Code, r.Codespace))
			}
		}
	}
}

// selectedLeaf recomputes the leaf index the protocol selects for a claim, from the chain the
// driver built (not from the node).
func (s *Sim) selectedLeaf(header pc.SessionHeader, total int64) (int64, bool) {
	start := s.viewAt(header.SessionBlockHeight)
	if start == nil || total <= 0 {
		return 0, false
	}
	bps, _ := start.ParamInt("pos/BlocksPerSession")
	window, _ := start.ParamInt("pocketcore/ClaimSubmissionWindow")
	return s.leafSelectedBy(header, total, header.SessionBlockHeight+window*bps-1) // the block whose hash selects
}

// leafSelectedBy: the leaf index the selection function yields from the hash of block entropy.
func (s *Sim) leafSelectedBy(header pc.SessionHeader, total int64, entropy int64) (int64, bool) {
	if total <= 0 {
		return 0, false
	}
	var hash []byte
	for _, spec := range s.drv.Log {
		if spec.Height == entropy {
			hash = spec.Hash
		}
	}
	if hash == nil {
		return 0, false
	}
	gen, _ := json.Marshal(struct{ BlockHash, Header string }{hex.EncodeToString(hash), header.HashString()})
	d := sha3.Sum256(gen)
	x := new(big.Int).SetBytes(d[:8])
	return x.Mod(x, big.NewInt(total)).Int64(), true
}

// claimStoreKey finds the stored claim of a servicer for a session and an evidence type (a claim
// of the other evidence type for the same session is another claim).
func claimStoreKey(v *View, servicer string, header pc.SessionHeader, et pc.EvidenceType) string {
	for k, c := range v.Claims {
		if c.FromAddress.String() == servicer && c.SessionHeader.HashString() == header.HashString() && c.EvidenceType == et {
			return k
		}
	}
	return "\x00none"
}

func zeroWidth(mp pc.MerkleProof) bool {
	if mp.Target.Range.Lower >= mp.Target.Range.Upper {
		return true
	}
	for _, hr := range mp.HashRanges {
		if hr.Range.Lower >= hr.Range.Upper {
			return true
		}
	}
	return false
}

// addressFromEd25519 derives the address of a raw ed25519 public key (first 20 bytes of sha256).
func addressFromEd25519(pk []byte) []byte {
	h := sha256.Sum256(pk)
	return h[:20]
}

func pocketTxDecode(tx []byte, h int64) (sdk.Msg, error) {
	t, err := auth.DefaultTxDecoder(app.Codec())(tx, h)
	if err != nil {
		return nil, fmt.Errorf("%s", err.Error())
	}
	st, ok := t.(authTypes.StdTx)
	if !ok {
		return nil, fmt.Errorf("not a StdTx")
	}
	switch m := st.Msg.(type) {
	case *pc.MsgClaim:
		return *m, nil
	case *pc.MsgProof:
		return *m, nil
	case pc.MsgClaim, pc.MsgProof:
		return m, nil
	}
	return st.Msg, nil
}

// ---------------------------------------------------------------- C26 relay reward split

func (s *Sim) checkRewardSplit(b *blockObs, m pc.MsgProof, inst *claimInst, vb, va *View, minted sdk.BigInt) {
	h := b.spec.Height
	deltas := accountDeltas(vb, va)
	feeAddr := ModuleAddr(authTypes.FeeCollectorName)
	servicer := inst.servicer
	node, ok := vb.Validators[servicer]
	if !ok {
		return
	}
	// conservation: everything minted is credited, nothing else moves (the proof fee nets to zero)
	sum := sdk.ZeroInt()
	for _, d := range deltas {
		sum = sum.Add(d)
	}
	if !sum.Equal(minted) {
		s.violate("C26", "reward-not-conserving", "proof", fmt.Sprintf("height %d: supply grew by %s, balances by %s", h, minted, sum))
	}
	fee := sdk.NewInt(baseFee)
	dao, _ := vb.ParamInt("pos/DAOAllocation")
	prop, _ := vb.ParamInt("pos/ProposerPercentage")
	if dao+prop > 100 {
		s.res.Probe("reward_paid_with_allocations_over_100")
	}
	// fee collector share = floor(M * (dao+proposer) / 100)
	wantFC := sdk.NewIntFromBigInt(new(big.Int).Quo(new(big.Int).Mul(minted.BigInt(), big.NewInt(dao+prop)), big.NewInt(100)))
	gotFC := sdk.ZeroInt()
	if d, ok := deltas[feeAddr]; ok {
		gotFC = d.Sub(fee)
	} else {
		gotFC = fee.Neg()
	}
	if !gotFC.Equal(wantFC) {
		s.violate("C26", "fee-collector-share-of-reward", "proof", fmt.Sprintf("height %d: reward %s with dao %d%% proposer %d%%: fee collector received %s, expected %s", h, minted, dao, prop, gotFC, wantFC))
	}
	portion := minted.Sub(wantFC)
	want := map[string]sdk.BigInt{}
	add := func(a string, x sdk.BigInt) {
		if x.IsZero() {
			return
		}
		if c, ok := want[a]; ok {
			want[a] = c.Add(x)
		} else {
			want[a] = x
		}
	}
	_ = add
	add(servicer, fee.Neg())
	add(feeAddr, fee.Add(wantFC))
	delegators := node.RewardDelegators
	if featureOn(codec.RewardDelegatorsKey, h) {
		cost := sdk.NewInt(2 * baseFee)
		if portion.LT(cost) {
			cost = portion
		}
		add(servicer, cost)
		portion = portion.Sub(cost)
	} else {
		delegators = nil
	}
	// Who receives the remainder: the statement says the output address. At simulation heights the
	// repository still runs its mainnet-history branches (below height 74622 the operator address
	// is paid unless the 69583 special case applies), and those height constants cannot be reached
	// or moved. The split arithmetic is therefore checked with either of the two as the primary
	// recipient; which one was paid is reported as a probe, not judged.
	outs := []string{servicer}
	if node.OutputAddress != nil && node.OutputAddress.String() != servicer {
		outs = []string{node.OutputAddress.String(), servicer}
	}
	base := want
	var lastMismatch string
	for _, out := range outs {
		want = map[string]sdk.BigInt{}
		for a, x := range base {
			want[a] = x
		}
		lastMismatch = s.rewardSplitMatches(h, minted, inst, portion, delegators, out, want, deltas, add)
		if lastMismatch == "" {
			if out == servicer && len(outs) > 1 {
				s.res.Probe("reward_paid_to_operator_not_output(legacy_height_branch)")
			}
			break
		}
	}
	if lastMismatch != "" {
		s.violate("C26", "reward-split", "proof", lastMismatch)
		return
	}
	out := outs[0]
	// minted = computed relay reward, where the formula is exact in integers
	if !featureOn(codec.RSCALKey, h) {
		rttm, _ := vb.ParamInt("pos/RelaysToTokensMultiplier")
		if !minted.Equal(sdk.NewInt(rttm).Mul(sdk.NewInt(inst.total))) {
			s.violate("C26", "reward-vs-formula", "proof", fmt.Sprintf("height %d: %d relays at multiplier %d minted %s", h, inst.total, rttm, minted))
		}
		s.res.Probe("reward_formula_exact_checked")
	} else if vb.Params["pos/ServicerStakeFloorMultiplierExponent"] == `"1.000000000000000000"` && vb.Params["pos/ServicerStakeWeightMultiplier"] == `"1.000000000000000000"` {
		// stake weighting with exponent 1 and weight divisor 1 is exact in integers:
		// bins = min(stake, ceiling) rounded down to whole bins; reward = multiplier * relays * bins
		rttm, _ := vb.ParamInt("pos/RelaysToTokensMultiplier")
		floor, _ := vb.ParamInt("pos/ServicerStakeFloorMultiplier")
		ceil, _ := vb.ParamInt("pos/ServicerStakeWeightCeiling")
		if floor > 0 {
			stake := node.StakedTokens.Int64()
			if ceil < stake {
				stake = ceil
			}
			bins := stake / floor
			// the node computes bins^(exponent) with a fixed-point root approximation, so the result
			// may be off in the last digits: accept one part per million plus one unit
			exact := sdk.NewInt(rttm).Mul(sdk.NewInt(inst.total)).Mul(sdk.NewInt(bins))
			tol := exact.Quo(sdk.NewInt(1_000_000)).Add(sdk.OneInt())
			if d := minted.Sub(exact); d.GT(tol) || d.LT(tol.Neg()) {
				s.violate("C26", "reward-vs-formula", "proof-weighted", fmt.Sprintf("height %d: %d relays at multiplier %d, stake %s in bins of %d capped at %d (%d bins) minted %s, formula %s", h, inst.total, rttm, node.StakedTokens, floor, ceil, bins, minted, exact))
			}
			if !minted.Equal(exact) {
				s.res.Probe("weighted_reward_off_by_rounding")
			}
			s.res.Probe("reward_formula_weighted_checked")
		}
	}
	if len(delegators) > 0 {
		s.res.Probe("reward_with_delegators")
	}
	s.res.Case(fmt.Sprintf("reward/delegators=%d/out=%v", len(delegators), out != servicer))
}

// ---------------------------------------------------------------- forging (F9)

var proofMutations = []string{"leaf", "index", "sibling_hash", "sibling_range", "target_range", "drop_level", "root_upper"}

// forgePending alters the node's own pending proof transactions (one field each) and re-signs
// them with the servicer's key: a cheating servicer.
func (s *Sim) forgePending(mut string, from int) {
	n := s.node
	dec := auth.DefaultTxDecoder(app.Codec())
	for i := from; i < len(n.Tm.Mempool); i++ {
		t, err := dec(n.Tm.Mempool[i], s.drv.Height)
		if err != nil {
			continue
		}
		st := t.(authTypes.StdTx)
		mp, ok := st.Msg.(*pc.MsgProof)
		if !ok {
			continue
		}
		m := *mp
		leaf, ok := m.GetLeaf().(pc.RelayProof)
		if !ok {
			if lp, ok2 := m.GetLeaf().(*pc.RelayProof); ok2 {
				leaf = *lp
			} else {
				continue
			}
		}
		hr := append([]pc.HashRange{}, m.MerkleProof.HashRanges...)
		m.MerkleProof.HashRanges = hr
		switch mut {
		case "leaf":
			leaf.Entropy++
			m.Leaf = leaf
		case "index":
			m.MerkleProof.TargetIndex ^= 1
		case "sibling_hash":
			if len(hr) > 0 {
				x := append([]byte{}, hr[len(hr)/2].Hash...)
				x[3] ^= 0x40
				hr[len(hr)/2].Hash = x
			}
		case "sibling_range":
			if len(hr) > 0 {
				hr[0].Range.Upper++
			}
		case "target_range":
			m.MerkleProof.Target.Range.Lower++
		case "drop_level":
			if len(hr) > 1 {
				m.MerkleProof.HashRanges = hr[:len(hr)-1]
			}
		default:
			continue
		}
		idx := s.keyIndexOf(m.GetSigners()[0].String())
		if idx < 0 {
			continue
		}
		priv := KeyFor(s.cfg.KeySeed, idx)
		s.relayEntropy++ // (a counter that advances at execution time, in generation and in replay alike)
		signBytes, serr := auth.StdSignBytes(ChainID, s.relayEntropy, st.Fee, &m, st.Memo)
		if serr != nil {
			continue
		}
		sig, _ := priv.Sign(signBytes)
		tx := authTypes.NewTx(&m, st.Fee, authTypes.StdSignature{Signature: sig, PublicKey: priv.PublicKey()}, st.Memo, s.relayEntropy)
		bz, eerr := auth.DefaultTxEncoder(app.Codec())(tx, -1)
		if eerr != nil {
			continue
		}
		n.Tm.Mempool[i] = bz
		s.forged[string(tmtypes.Tx(bz).Hash())] = mut
		s.res.Fault("forged_proof_" + mut)
	}
}

// reissuePending (C32): a servicer of this process sends, next to each claim and proof it has
// just broadcast, a second version signed by itself:
//   - "mistype": the same claim / proof with the evidence type "challenge" although the tree was
//     built from relays. The relays of one session must not be paid through two claims.
//   - "shift-height": the same claim for the session block height + 1, a height at which no session
//     starts. A session exists only at its start heights; the allowance is per session.
func (s *Sim) reissuePending(kind string, from int) {
	n := s.node
	dec := auth.DefaultTxDecoder(app.Codec())
	end := len(n.Tm.Mempool)
	for i := from; i < end; i++ {
		t, err := dec(n.Tm.Mempool[i], s.drv.Height)
		if err != nil {
			continue
		}
		st := t.(authTypes.StdTx)
		var msg sdk.ProtoMsg
		var signer sdk.Address
		switch m := st.Msg.(type) {
		case *pc.MsgClaim:
			c := *m
			if kind == "mistype" {
				c.EvidenceType = pc.ChallengeEvidence
			} else {
				c.SessionHeader.SessionBlockHeight++
			}
			msg, signer = &c, c.FromAddress
		case *pc.MsgProof:
			if kind != "mistype" {
				continue
			}
			p := *m
			p.EvidenceType = pc.ChallengeEvidence
			msg, signer = &p, p.GetSigners()[0]
		default:
			continue
		}
		idx := s.keyIndexOf(signer.String())
		if idx < 0 {
			continue
		}
		priv := KeyFor(s.cfg.KeySeed, idx)
		s.relayEntropy++
		signBytes, serr := auth.StdSignBytes(ChainID, s.relayEntropy, st.Fee, msg, st.Memo)
		if serr != nil {
			continue
		}
		sig, _ := priv.Sign(signBytes)
		tx := authTypes.NewTx(msg, st.Fee, authTypes.StdSignature{Signature: sig, PublicKey: priv.PublicKey()}, st.Memo, s.relayEntropy)
		bz, eerr := auth.DefaultTxEncoder(app.Codec())(tx, -1)
		if eerr != nil {
			continue
		}
		n.Tm.Mempool = append(n.Tm.Mempool, bz)
		s.res.Fault("reissued_" + strings.ReplaceAll(kind, "-", "_"))
	}
}

// earlyProofs (C31): a servicer of this process does not wait for the proof height. For each of its
// pending claims it proves, in the next block, the leaf that the hash of the CURRENT tip selects
// (a hash it knows). The network must refuse a proof until the selecting block exists.
func (s *Sim) earlyProofs() {
	v := s.committedView
	if v == nil {
		return
	}
	h := s.drv.Height
	keys := make([]string, 0, len(v.Claims))
	for k := range v.Claims {
		keys = append(keys, k)
	}
	sort.Strings(keys)
	made := 0
	for _, ck := range keys {
		c := v.Claims[ck]
		pn, local := pc.GlobalPocketNodes[c.FromAddress.String()]
		idx := s.keyIndexOf(c.FromAddress.String())
		start := s.viewAt(c.SessionHeader.SessionBlockHeight)
		if !local || idx < 0 || start == nil || c.EvidenceType != pc.RelayEvidence || made >= 2 {
			continue
		}
		bps, _ := start.ParamInt("pos/BlocksPerSession")
		window, _ := start.ParamInt("pocketcore/ClaimSubmissionWindow")
		if h+1 >= c.SessionHeader.SessionBlockHeight+window*bps {
			continue // no longer early
		}
		leafIdx, ok := s.leafSelectedBy(c.SessionHeader, c.TotalProofs, h)
		if !ok {
			continue
		}
		ev, err := pc.GetEvidence(c.SessionHeader, pc.RelayEvidence, sdk.NewInt(c.TotalProofs), pn.EvidenceStore)
		if err != nil || int64(len(ev.Proofs)) < c.TotalProofs {
			continue
		}
		mp, leaf := ev.GenerateMerkleProof(c.SessionHeader.SessionBlockHeight, int(leafIdx), c.TotalProofs)
		m := pc.MsgProof{MerkleProof: mp, Leaf: leaf, EvidenceType: pc.RelayEvidence}
		priv := KeyFor(s.cfg.KeySeed, idx)
		fee := sdk.NewCoins(sdk.NewCoin(sdk.DefaultStakeDenom, sdk.NewInt(baseFee)))
		s.relayEntropy++
		signBytes, serr := auth.StdSignBytes(ChainID, s.relayEntropy, fee, &m, "")
		if serr != nil {
			continue
		}
		sig, _ := priv.Sign(signBytes)
		tx := authTypes.NewTx(&m, fee, authTypes.StdSignature{Signature: sig, PublicKey: priv.PublicKey()}, "", s.relayEntropy)
		bz, eerr := auth.DefaultTxEncoder(app.Codec())(tx, -1)
		if eerr != nil {
			continue
		}
		s.node.Tm.Mempool = append(s.node.Tm.Mempool, bz)
		s.res.Fault("proof_sent_before_the_proof_height")
		made++
	}
}

// duplicateEvidence makes a cheating servicer count one relay twice before claiming.
func (s *Sim) duplicateEvidence(pn *pc.PocketNode) {
	it := pc.EvidenceIterator(pn.EvidenceStore)
	var evs []pc.Evidence
	for ; it.Valid(); it.Next() {
		evs = append(evs, it.Value())
	}
	it.Close()
	for _, ev := range evs {
		if len(ev.Proofs) < 5 || pn.EvidenceStore.IsSealed(ev) {
			continue
		}
		// only before the claim: the seal is in memory and does not survive a restart, and evidence
		// altered after its claim was sent no longer matches the claimed root (a harness artefact,
		// not a double-counted relay)
		if _, claimed := s.claims[claimKeyOf(pn.GetAddress().String(), ev.SessionHeader)]; claimed {
			continue
		}
		if s.committedView != nil {
			if _, pending := s.committedView.Claims[claimStoreKey(s.committedView, pn.GetAddress().String(), ev.SessionHeader, pc.RelayEvidence)]; pending {
				continue
			}
		}
		ev.Proofs = append(ev.Proofs, ev.Proofs[len(ev.Proofs)/2])
		ev.NumOfProofs++
		pc.SetEvidence(ev, pn.EvidenceStore)
		s.dupEvidence[claimKeyOf(pn.GetAddress().String(), ev.SessionHeader)] = true
		s.res.Fault("duplicated_relay_in_evidence")
	}
}

// rewardSplitMatches builds the expected credits with out as the primary recipient and compares
// them with the observed deltas; it returns "" on a match, otherwise a description.
func (s *Sim) rewardSplitMatches(h int64, minted sdk.BigInt, inst *claimInst, portion sdk.BigInt, delegators map[string]uint32, out string, want, deltas map[string]sdk.BigInt, _ func(string, sdk.BigInt)) string {
	add := func(a string, x sdk.BigInt) {
		if x.IsZero() {
			return
		}
		if c, ok := want[a]; ok {
			want[a] = c.Add(x)
		} else {
			want[a] = x
		}
	}
	if portion.IsPositive() {
		remains := portion
		total := uint32(0)
		for _, sh := range delegators {
			total += sh
		}
		if total <= 100 {
			for _, a := range sortedAddrs(delegators) {
				alloc := sdk.NewIntFromBigInt(new(big.Int).Quo(new(big.Int).Mul(portion.BigInt(), big.NewInt(int64(delegators[a]))), big.NewInt(100)))
				add(a, alloc)
				remains = remains.Sub(alloc)
			}
		}
		add(out, remains)
	}
	for a, w := range want {
		g := sdk.ZeroInt()
		if d, ok := deltas[a]; ok {
			g = d
		}
		if !g.Equal(w) {
			return fmt.Sprintf("height %d: reward %s for %d relays (delegators %v, primary recipient %s): account %s changed by %s, expected %s", h, minted, inst.total, delegators, out, a, g, w)
		}
	}
	for a, d := range deltas {
		if w, ok := want[a]; !ok || w.IsZero() {
			if !d.IsZero() {
				return fmt.Sprintf("height %d: account %s changed by %s in a proof transaction and is neither servicer, delegator, output address nor fee collector", h, a, d)
			}
		}
	}
	return ""
}
