package chainsim

// The simulated node: the real pocket-core application over simulated disks, driven through its
// ABCI methods by a Tendermint stand-in. Everything process-global that a real restart would
// reset is reset in Reset().

import (
	"crypto/ed25519"
	"crypto/sha256"
	"encoding/binary"
	"fmt"
	"math"
	"os"
	"strings"
	"sync"
	"time"

	"verif/sim/simdb"

	"github.com/pokt-network/pocket-core/app"
	bam "github.com/pokt-network/pocket-core/baseapp"
	"github.com/pokt-network/pocket-core/codec"
	"github.com/pokt-network/pocket-core/crypto"
	"github.com/pokt-network/pocket-core/store"
	sdk "github.com/pokt-network/pocket-core/types"
	"github.com/pokt-network/pocket-core/types/module"
	apps "github.com/pokt-network/pocket-core/x/apps"
	appsTypes "github.com/pokt-network/pocket-core/x/apps/types"
	"github.com/pokt-network/pocket-core/x/auth"
	"github.com/pokt-network/pocket-core/x/gov"
	govTypes "github.com/pokt-network/pocket-core/x/gov/types"
	"github.com/pokt-network/pocket-core/x/nodes"
	nodesTypes "github.com/pokt-network/pocket-core/x/nodes/types"
	pocket "github.com/pokt-network/pocket-core/x/pocketcore"
	pocketTypes "github.com/pokt-network/pocket-core/x/pocketcore/types"
	abci "github.com/tendermint/tendermint/abci/types"
	"github.com/tendermint/tendermint/libs/log"
	tmrand "github.com/tendermint/tendermint/libs/rand"
	tmstore "github.com/tendermint/tendermint/store"
	tmtypes "github.com/tendermint/tendermint/types"
)

const ChainID = "pocket-sim"
const OtherChainID = "pocket-other"

var genesisTime = time.Date(2026, 1, 1, 0, 0, 0, 0, time.UTC)

// ---------------------------------------------------------------- keys

// KeyFor derives a private key from the run's key seed and an index (ed25519).
func KeyFor(keySeed uint64, idx int) crypto.PrivateKey {
	h := sha256.Sum256([]byte(fmt.Sprintf("key/%d/%d", keySeed, idx)))
	pk, err := crypto.NewPrivateKeyBz(ed25519.NewKeyFromSeed(h[:]))
	if err != nil {
		panic(err)
	}
	return pk
}

func AddrOf(pk crypto.PrivateKey) sdk.Address { return sdk.Address(pk.PublicKey().Address()) }

func isMulti(idx int) bool { return idx >= multiBase && idx < multiBase+nMulti }

// MultiKeyFor returns the multi-signature public key of account idx and its member private keys.
func MultiKeyFor(keySeed uint64, idx int) (crypto.PublicKeyMultiSignature, []crypto.PrivateKey) {
	j := idx - multiBase
	m := []crypto.PrivateKey{KeyFor(keySeed, multiMember+2*j), KeyFor(keySeed, multiMember+2*j+1)}
	return crypto.PublicKeyMultiSignature{PublicKeys: []crypto.PublicKey{m[0].PublicKey(), m[1].PublicKey()}}, m
}

// ---------------------------------------------------------------- config

// Config is the swarm configuration of one run (all drawn from the seed, recorded in the
// schedule, never re-drawn on replay).
type Config struct {
	KeySeed  uint64   `json:"key_seed"`
	NWallets int      `json:"wallets"`   // funded plain accounts: keys 0..NWallets-1
	NNodes   int      `json:"nodes"`     // genesis validators: keys 100..100+NNodes-1, output keys 200..
	NApps    int      `json:"apps"`      // genesis applications: keys 300..
	NSpare   int      `json:"spare"`     // extra funded keys that can become nodes/apps: 400..
	OwnerKey int      `json:"owner_key"` // DAO owner / ACL owner key index (a wallet)
	Chains   []string `json:"chains"`

	// params
	BlocksPerSession   int64 `json:"blocks_per_session"`
	ClaimWindow        int64 `json:"claim_window"`
	ClaimExpiration    int64 `json:"claim_expiration"`
	SessionNodeCount   int64 `json:"session_node_count"`
	MinProofs          int64 `json:"min_proofs"`
	MaxValidators      int64 `json:"max_validators"`
	StakeMinimum       int64 `json:"stake_minimum"`
	NodeUnstakingSecs  int64 `json:"node_unstaking_s"`
	AppUnstakingSecs   int64 `json:"app_unstaking_s"`
	MaxApplications    int64 `json:"max_applications"`
	AppStakeMin        int64 `json:"app_stake_min"`
	AppMaxChains       int64 `json:"app_max_chains"`
	NodeMaxChains      int64 `json:"node_max_chains"`
	BaseRelaysPerPOKT  int64 `json:"base_relays_per_pokt"`
	DAOAllocation      int64 `json:"dao_allocation"`
	ProposerAllocation int64 `json:"proposer_allocation"`
	RTTM               int64 `json:"rttm"`
	SignedBlocksWindow int64 `json:"signed_blocks_window"`
	MinSignedPct       int64 `json:"min_signed_pct"`
	DowntimeJailSecs   int64 `json:"downtime_jail_s"`
	MaxJailedBlocks    int64 `json:"max_jailed_blocks"`
	SlashDoubleSignPct int64 `json:"slash_double_sign_pct"`
	SlashDowntimePct   int64 `json:"slash_downtime_pct"`
	ReplayBurnMult     int64 `json:"replay_burn_mult"`
	RSCALOn            bool  `json:"rscal_weighted"`         // non-trivial stake weighting parameters
	StartHeight        int64 `json:"start_height,omitempty"` // C14: empty blocks are run up to this height before the generated steps (heights with rules of their own)
	SplitACL           bool  `json:"split_acl,omitempty"`    // every third parameter key is owned by a second owner (key index 1)

	// upgrade schedule installed in genesis (gov Upgrade param)
	CodecUpgradeHeight int64            `json:"codec_upgrade_height"`
	UpgradeHeight      int64            `json:"upgrade_height"`
	Features           map[string]int64 `json:"features"`

	// node-local knobs
	IavlCache                int64 `json:"iavl_cache"`
	HeightCache              bool  `json:"height_cache"`
	CtxCache                 int   `json:"ctx_cache"`
	AppCache                 int   `json:"app_cache"`
	ValCache                 int   `json:"val_cache"`
	SessionCache             int   `json:"session_cache"`
	EvidenceCache            int   `json:"evidence_cache"`
	ClientBlockSyncAllowance int   `json:"client_block_allowance"`
	SessionSyncAllowance     int   `json:"session_sync_allowance,omitempty"` // node configuration client_session_sync_allowance (sessions of the past a relay may still name)

	Steps int `json:"n"`
}

const (
	walletBase = 0
	nodeBase   = 100
	outputBase = 200
	appBase    = 300
	spareBase  = 400
	// multiBase+j is a two-of-two multi-signature account: its address is that of the multi-key made
	// of the keys multiMember+2j and multiMember+2j+1, and its transactions carry both signatures
	freshBase   = 1200 // keys that hold nothing at genesis (reward delegators without an account)
	multiBase   = 700
	multiMember = 7000
	nMulti      = 2
)

const wallet0Balance = 5_000_000_000

// ---------------------------------------------------------------- node

type Disks struct {
	App, Index, Blocks *simdb.DB
	Evidence           map[string]*simdb.DB // per servicer address
}

func NewDisks() *Disks {
	return &Disks{App: simdb.New(), Index: simdb.New(), Blocks: simdb.New(), Evidence: map[string]*simdb.DB{}}
}

func (d *Disks) Snapshot() *Disks {
	c := &Disks{App: d.App.Snapshot(), Index: d.Index.Snapshot(), Blocks: d.Blocks.Snapshot(), Evidence: map[string]*simdb.DB{}}
	for k, v := range d.Evidence {
		c.Evidence[k] = v.Snapshot()
	}
	return c
}

type Node struct {
	Cfg      *Config
	Name     string
	Disks    *Disks
	App      *app.PocketCoreApp
	Indexer  *sdk.TransactionIndexer
	Blocks   *tmstore.BlockStore
	Tm       *TmStub
	Hosted   *pocketTypes.HostedBlockchains
	Restarts int
	// Servicers are the node keys this process serves relays for (lean pocket style).
	Servicers []int
	logger    log.Logger
}

var metricsOnce sync.Once

// Reset re-initialises every process-global a real process start would find fresh (N10).
func Reset(cfg *Config, replica string, restartNo int) {
	codec.UpgradeHeight = math.MaxInt64
	codec.OldUpgradeHeight = 0
	codec.UpgradeFeatureMap = make(map[string]int64)
	codec.TestMode = 0
	// a fresh codec: the application flips a sticky "upgrade override" on it at the codec upgrade
	// height, which a new process would not inherit
	app.MakeCodec()
	sdk.InitCtxCache(cfg.CtxCache)
	sdk.VbCCache = sdk.NewCache(1200)
	app.GenState = nil
	app.PCA = nil
	pocketTypes.GlobalPocketNodes = map[string]*pocketTypes.PocketNode{}
	pocketTypes.GlobalEvidenceCache = nil
	pocketTypes.GlobalSessionCache = nil
	pc := sdk.DefaultTestingPocketConfig().PocketConfig
	pc.ClientBlockSyncAllowance = cfg.ClientBlockSyncAllowance
	pc.ClientSessionSyncAllowance = int64(cfg.SessionSyncAllowance)
	pc.LeanPocket = true
	pocketTypes.GlobalPocketConfig = pc
	pocketTypes.InitClientBlockAllowance(cfg.ClientBlockSyncAllowance)
	app.GlobalConfig.PocketConfig = pc
	h := sha256.Sum256([]byte(fmt.Sprintf("tmrand/%d/%s/%d", cfg.KeySeed, replica, restartNo)))
	tmrand.Seed(int64(binary.LittleEndian.Uint64(h[:8]) >> 1))
}

func quietLogger() log.Logger {
	if os.Getenv("SIM_VERBOSE") != "" {
		return log.NewTMLogger(log.NewSyncWriter(os.Stderr))
	}
	return log.NewNopLogger()
}

// NewNode creates a node over the given disks (fresh or surviving) and constructs the app.
func NewNode(cfg *Config, name string, disks *Disks, restartNo int, servicers []int) *Node {
	n := &Node{Cfg: cfg, Name: name, Disks: disks, Restarts: restartNo, Servicers: servicers, logger: quietLogger()}
	Reset(cfg, name, restartNo)
	metricsOnce.Do(func() {
		// starts the Prometheus listener once per process, outside any simulation
		pocketTypes.InitConfig(&pocketTypes.HostedBlockchains{M: map[string]pocketTypes.HostedBlockchain{}}, n.logger, sdk.Config{PocketConfig: pocketTypes.GlobalPocketConfig, TendermintConfig: sdk.DefaultTestingPocketConfig().TendermintConfig})
	})
	n.start()
	return n
}

// GenesisOverride, when set, replaces the generated genesis (C43 import child).
var GenesisOverride app.GenesisState

func (n *Node) start() {
	cfg := n.Cfg
	app.GenState = BuildGenesis(cfg)
	if GenesisOverride != nil {
		app.GenState = GenesisOverride
	}
	hosted := map[string]pocketTypes.HostedBlockchain{}
	for _, c := range cfg.Chains {
		hosted[c] = pocketTypes.HostedBlockchain{ID: c, URL: "http://hosted.sim/" + c}
	}
	n.Hosted = &pocketTypes.HostedBlockchains{M: hosted, L: sync.RWMutex{}}
	n.Tm = &TmStub{node: n}
	// the servicer keys and their evidence/session stores (what InitPocketNodeCaches does, over simdb)
	// The servicer map is built aside and published with one assignment: a metrics goroutine that
	// the code under test started during an earlier run of this process (GetEvidence ->
	// go AddSessionFor -> GetPocketNode ranges over GlobalPocketNodes) may still be running, and a
	// map that is written while it is ranged over ends the process.
	nodes := map[string]*pocketTypes.PocketNode{}
	for _, idx := range n.Servicers {
		pk := KeyFor(cfg.KeySeed, idx)
		addr := AddrOf(pk).String()
		pn, exists := nodes[addr]
		if !exists {
			pn = &pocketTypes.PocketNode{PrivateKey: pk}
			nodes[addr] = pn
		}
		db := n.Disks.Evidence[addr]
		if db == nil {
			db = simdb.New()
			n.Disks.Evidence[addr] = db
		}
		pn.DoCacheInitOnce.Do(func() {
			pn.EvidenceStore = &pocketTypes.CacheStorage{Cache: sdk.NewCache(cfg.EvidenceCache), DB: db, SealMap: &sync.Map{}}
			pn.SessionStore = &pocketTypes.CacheStorage{Cache: sdk.NewCache(cfg.SessionCache), DB: simdb.New(), SealMap: &sync.Map{}}
			if pocketTypes.GlobalSessionCache == nil {
				pocketTypes.GlobalSessionCache = pn.SessionStore
				pocketTypes.GlobalEvidenceCache = pn.EvidenceStore
			}
		})
	}
	pocketTypes.GlobalPocketNodes = nodes
	if pocketTypes.GlobalSessionCache == nil {
		// a node that serves nothing still needs the global caches (dispatch path)
		pocketTypes.GlobalSessionCache = &pocketTypes.CacheStorage{Cache: sdk.NewCache(cfg.SessionCache), DB: simdb.New(), SealMap: &sync.Map{}}
		pocketTypes.GlobalEvidenceCache = &pocketTypes.CacheStorage{Cache: sdk.NewCache(cfg.EvidenceCache), DB: simdb.New(), SealMap: &sync.Map{}}
	}
	n.App = app.NewPocketCoreApp(app.GenState, nil, n.Tm, n.Hosted, n.logger, n.Disks.App, cfg.HeightCache, cfg.IavlCache, bam.SetPruning(store.PruneNothing))
	app.PCA = n.App
	n.Indexer = sdk.NewTransactionIndexer(n.Disks.Index)
	n.Blocks = tmstore.NewBlockStore(n.Disks.Blocks)
	n.App.SetTxIndexer(n.Indexer)
	n.App.SetBlockstore(n.Blocks)
}

// Restart models a clean process restart over the surviving disks.
func (n *Node) Restart(disks *Disks) *Node {
	if disks == nil {
		disks = n.Disks
	}
	return NewNode(n.Cfg, n.Name, disks, n.Restarts+1, n.Servicers)
}

func (n *Node) Height() int64 { return n.App.LastBlockHeight() }

// ---------------------------------------------------------------- genesis

func basicManager() module.BasicManager {
	return module.NewBasicManager(apps.AppModuleBasic{}, auth.AppModuleBasic{}, gov.AppModuleBasic{}, nodes.AppModuleBasic{}, pocket.AppModuleBasic{})
}

var aclKeys = []string{
	"application/ApplicationStakeMinimum", "application/AppUnstakingTime", "application/BaseRelaysPerPOKT", "application/MaxApplications",
	"application/MaximumChains", "application/ParticipationRateOn", "application/StabilityAdjustment",
	"auth/MaxMemoCharacters", "auth/TxSigLimit", "auth/FeeMultipliers",
	"gov/acl", "gov/daoOwner", "gov/upgrade",
	"pocketcore/ClaimExpiration", "pocketcore/ClaimSubmissionWindow", "pocketcore/MinimumNumberOfProofs", "pocketcore/ReplayAttackBurnMultiplier",
	"pocketcore/SessionNodeCount", "pocketcore/SupportedBlockchains",
	"pos/BlocksPerSession", "pos/DAOAllocation", "pos/DowntimeJailDuration", "pos/MaxEvidenceAge", "pos/MaximumChains", "pos/MaxJailedBlocks",
	"pos/MaxValidators", "pos/MinSignedPerWindow", "pos/ProposerPercentage", "pos/RelaysToTokensMultiplier", "pos/SignedBlocksWindow",
	"pos/SlashFractionDoubleSign", "pos/SlashFractionDowntime", "pos/StakeDenom", "pos/StakeMinimum", "pos/UnstakingTime",
}

// NodeStake is the genesis stake of node i (powers differ so the validator cut is meaningful).
func NodeStake(cfg *Config, i int) int64 { return cfg.StakeMinimum + int64(i+1)*3_000_000 }

// AppStake is the genesis stake of application i.
func AppStake(cfg *Config, i int) int64 { return cfg.AppStakeMin + int64(i+1)*1_000_000 }

func BuildGenesis(cfg *Config) app.GenesisState {
	cdc := app.Codec()
	gen := basicManager().DefaultGenesis()
	owner := AddrOf(KeyFor(cfg.KeySeed, cfg.OwnerKey))

	// auth
	var authGS auth.GenesisState
	cdc.MustUnmarshalJSON(gen[auth.ModuleName], &authGS)
	fund := func(idx int, amount int64) {
		pk := KeyFor(cfg.KeySeed, idx)
		authGS.Accounts = append(authGS.Accounts, &auth.BaseAccount{Address: AddrOf(pk), Coins: sdk.NewCoins(sdk.NewCoin(sdk.DefaultStakeDenom, sdk.NewInt(amount))), PubKey: pk.PublicKey()})
	}
	for i := 0; i < cfg.NWallets; i++ {
		fund(walletBase+i, wallet0Balance+int64(i)*1_000_003)
	}
	for i := 0; i < cfg.NNodes; i++ {
		fund(nodeBase+i, 200_000_000)
		fund(outputBase+i, 300_000_000)
	}
	for i := 0; i < cfg.NApps; i++ {
		fund(appBase+i, 100_000_000)
	}
	for i := 0; i < cfg.NSpare; i++ {
		fund(spareBase+i, 900_000_000)
	}
	for j := 0; j < nMulti; j++ {
		mk, _ := MultiKeyFor(cfg.KeySeed, multiBase+j)
		authGS.Accounts = append(authGS.Accounts, &auth.BaseAccount{Address: sdk.Address(mk.Address()), Coins: sdk.NewCoins(sdk.NewCoin(sdk.DefaultStakeDenom, sdk.NewInt(50_000_000+int64(j)*7)))})
	}
	gen[auth.ModuleName] = cdc.MustMarshalJSON(authGS)

	// nodes
	var posGS nodesTypes.GenesisState
	cdc.MustUnmarshalJSON(gen[nodesTypes.ModuleName], &posGS)
	for i := 0; i < cfg.NNodes; i++ {
		pk := KeyFor(cfg.KeySeed, nodeBase+i)
		chains := []string{cfg.Chains[0]}
		if len(cfg.Chains) > 1 && i%2 == 1 {
			chains = append(chains, cfg.Chains[1])
		}
		posGS.Validators = append(posGS.Validators, nodesTypes.Validator{
			Address: AddrOf(pk), PublicKey: pk.PublicKey(), Status: sdk.Staked, Chains: chains,
			ServiceURL: fmt.Sprintf("https://node%d.sim:443", i), StakedTokens: sdk.NewInt(NodeStake(cfg, i)),
			OutputAddress: AddrOf(KeyFor(cfg.KeySeed, outputBase+i)),
		})
	}
	p := &posGS.Params
	p.SessionBlockFrequency = cfg.BlocksPerSession
	p.MaxValidators = cfg.MaxValidators
	p.StakeMinimum = cfg.StakeMinimum
	p.UnstakingTime = time.Duration(cfg.NodeUnstakingSecs) * time.Second
	p.DAOAllocation = cfg.DAOAllocation
	p.ProposerAllocation = cfg.ProposerAllocation
	p.RelaysToTokensMultiplier = cfg.RTTM
	p.MaximumChains = cfg.NodeMaxChains
	p.SignedBlocksWindow = cfg.SignedBlocksWindow
	p.MinSignedPerWindow = sdk.NewDecWithPrec(cfg.MinSignedPct, 2)
	p.DowntimeJailDuration = time.Duration(cfg.DowntimeJailSecs) * time.Second
	p.MaxJailedBlocks = cfg.MaxJailedBlocks
	p.SlashFractionDoubleSign = sdk.NewDecWithPrec(cfg.SlashDoubleSignPct, 2)
	p.SlashFractionDowntime = sdk.NewDecWithPrec(cfg.SlashDowntimePct, 2)
	if cfg.RSCALOn {
		p.ServicerStakeFloorMultiplier = 1_000_000
		p.ServicerStakeWeightMultiplier = sdk.NewDecWithPrec(15, 1)
		p.ServicerStakeWeightCeiling = cfg.StakeMinimum + 9_000_000
		p.ServicerStakeFloorMultiplierExponent = sdk.NewDecWithPrec(5, 1)
	} else {
		// integer weights: reward = multiplier * relays * (floored stake in POKT, capped)
		p.ServicerStakeFloorMultiplier = 1_000_000
		p.ServicerStakeWeightMultiplier = sdk.NewDec(1)
		p.ServicerStakeWeightCeiling = cfg.StakeMinimum + 12_000_000
		p.ServicerStakeFloorMultiplierExponent = sdk.NewDec(1)
	}
	gen[nodesTypes.ModuleName] = cdc.MustMarshalJSON(posGS)

	// apps
	var appGS appsTypes.GenesisState
	cdc.MustUnmarshalJSON(gen[appsTypes.ModuleName], &appGS)
	for i := 0; i < cfg.NApps; i++ {
		pk := KeyFor(cfg.KeySeed, appBase+i)
		chains := []string{cfg.Chains[0]}
		if len(cfg.Chains) > 1 && i%2 == 1 {
			chains = []string{cfg.Chains[1]}
		}
		stake := AppStake(cfg, i)
		appGS.Applications = append(appGS.Applications, appsTypes.Application{
			Address: AddrOf(pk), PublicKey: pk.PublicKey(), Status: sdk.Staked, Chains: chains,
			StakedTokens: sdk.NewInt(stake), MaxRelays: sdk.NewInt(stake / 1_000_000 * cfg.BaseRelaysPerPOKT / 100),
		})
	}
	appGS.Params.UnstakingTime = time.Duration(cfg.AppUnstakingSecs) * time.Second
	appGS.Params.MaxApplications = cfg.MaxApplications
	appGS.Params.AppStakeMin = cfg.AppStakeMin
	appGS.Params.MaxChains = cfg.AppMaxChains
	appGS.Params.BaseRelaysPerPOKT = cfg.BaseRelaysPerPOKT
	gen[appsTypes.ModuleName] = cdc.MustMarshalJSON(appGS)

	// pocketcore
	var pcGS pocketTypes.GenesisState
	cdc.MustUnmarshalJSON(gen[pocketTypes.ModuleName], &pcGS)
	pcGS.Params.SupportedBlockchains = cfg.Chains
	pcGS.Params.SessionNodeCount = cfg.SessionNodeCount
	pcGS.Params.ClaimSubmissionWindow = cfg.ClaimWindow
	pcGS.Params.ClaimExpiration = cfg.ClaimExpiration
	pcGS.Params.MinimumNumberOfProofs = cfg.MinProofs
	pcGS.Params.ReplayAttackBurnMultiplier = cfg.ReplayBurnMult
	gen[pocketTypes.ModuleName] = cdc.MustMarshalJSON(pcGS)

	// gov
	var govGS govTypes.GenesisState
	cdc.MustUnmarshalJSON(gen[govTypes.ModuleName], &govGS)
	acl := govTypes.ACL(make([]govTypes.ACLPair, 0))
	owner2 := AddrOf(KeyFor(cfg.KeySeed, 1))
	for i, k := range aclKeys {
		if cfg.SplitACL && i%3 == 1 && !strings.HasPrefix(k, "gov/") {
			acl.SetOwner(k, owner2)
		} else {
			acl.SetOwner(k, owner)
		}
	}
	govGS.Params.ACL = acl
	govGS.Params.DAOOwner = owner
	up := govTypes.NewUpgrade(cfg.UpgradeHeight, "0.12.0")
	up.OldUpgradeHeight = cfg.CodecUpgradeHeight
	up.Features = codec.CleanUpgradeFeatureSlice(codec.MapToSlice(cfg.Features))
	govGS.Params.Upgrade = up
	govGS.DAOTokens = sdk.NewInt(50_000_000)
	gen[govTypes.ModuleName] = cdc.MustMarshalJSON(govGS)
	return gen
}

// InstallUpgradeGlobals puts into the codec globals what a (re)start derives from the gov upgrade
// parameter. A fresh chain has the parameter only in genesis, so the harness installs it before
// InitChain exactly as NewPocketCoreApp would after a restart.
func InstallUpgradeGlobals(cfg *Config) {
	codec.UpgradeHeight = cfg.UpgradeHeight
	codec.OldUpgradeHeight = cfg.CodecUpgradeHeight
	codec.UpgradeFeatureMap = codec.SliceToExistingMap(codec.MapToSlice(cfg.Features), codec.UpgradeFeatureMap)
}

// ---------------------------------------------------------------- ABCI helpers

func (n *Node) InitChain() abci.ResponseInitChain {
	InstallUpgradeGlobals(n.Cfg)
	return n.initChain()
}

// InitChainFirstStart is InitChain as the chain's very first process runs it: the process started
// over an empty database, so NewPocketCoreApp found no upgrade record to derive the protocol
// switches from, and nothing but InitChain itself can set them.
func (n *Node) InitChainFirstStart() abci.ResponseInitChain { return n.initChain() }

func (n *Node) initChain() abci.ResponseInitChain {
	return n.App.InitChain(abci.RequestInitChain{
		Time:    genesisTime,
		ChainId: ChainID,
		ConsensusParams: &abci.ConsensusParams{
			Block:     &abci.BlockParams{MaxBytes: pocketTypes.DefaultBlockByteSize, MaxGas: -1},
			Evidence:  &abci.EvidenceParams{MaxAge: 1000000},
			Validator: &abci.ValidatorParams{PubKeyTypes: []string{"ed25519"}},
		},
	})
}

var _ = tmtypes.Tx(nil)
