package chainsim

// Transaction steps: concrete, serialisable descriptions from which the executor builds signed
// transaction bytes. Every step carries the ground truth the oracles need (which key really
// signed, how the signature/fee/encoding were treated).

import (
	"bytes"
	"encoding/binary"
	"fmt"
	"sort"

	"github.com/pokt-network/pocket-core/app"
	posCrypto "github.com/pokt-network/pocket-core/crypto"
	sdk "github.com/pokt-network/pocket-core/types"
	appsTypes "github.com/pokt-network/pocket-core/x/apps/types"
	"github.com/pokt-network/pocket-core/x/auth"
	authTypes "github.com/pokt-network/pocket-core/x/auth/types"
	govTypes "github.com/pokt-network/pocket-core/x/gov/types"
	nodesTypes "github.com/pokt-network/pocket-core/x/nodes/types"
)

type UpgradeSpec struct {
	Height   int64    `json:"height"`
	Version  string   `json:"version"`
	Features []string `json:"features,omitempty"`
}

type Step struct {
	Op string `json:"op"`
	// ---- tx
	ID         int          `json:"id,omitempty"`
	Kind       string       `json:"kind,omitempty"`
	From       int          `json:"from,omitempty"`
	To         int          `json:"to,omitempty"`
	Amount     int64        `json:"amount,omitempty"`
	Chains     []string     `json:"chains,omitempty"`
	Output     int          `json:"output,omitempty"`
	Delegators [][2]int     `json:"delegators,omitempty"` // (key index, share percent)
	Declared   int          `json:"declared,omitempty"`   // declared Signer field (node unstake/unjail)
	ParamKey   string       `json:"param_key,omitempty"`
	ParamVal   string       `json:"param_val,omitempty"`
	Action     string       `json:"action,omitempty"`
	Upgrade    *UpgradeSpec `json:"upgrade,omitempty"`
	SignKey    int          `json:"sign_key,omitempty"`
	Sig        string       `json:"sig,omitempty"` // ok | flip | otherchain | none
	Fee        int64        `json:"fee,omitempty"`
	Entropy    int64        `json:"entropy,omitempty"`
	ToMod      string       `json:"to_mod,omitempty"` // recipient is this module account (gov_dao)
	Memo       string       `json:"memo,omitempty"`
	Via        string       `json:"via,omitempty"` // "" straight into the next block | "checktx" first
	// ---- resubmit
	Ref int    `json:"ref,omitempty"`
	Enc string `json:"enc,omitempty"` // same | overlong | unknown_field | dup_field
	// ---- block
	DtS      int64      `json:"dt_s,omitempty"`
	Absent   []int      `json:"absent,omitempty"`   // indexes into the sorted signer set
	Evidence [][3]int64 `json:"evidence,omitempty"` // (validator index in signer set, height offset back, age seconds)
	Proposer int        `json:"proposer,omitempty"`
	Shuffle  int64      `json:"shuffle,omitempty"`  // non-zero: mempool order permuted by this value
	CrashAt  int        `json:"crash_at,omitempty"` // non-zero: the process dies after (CrashAt-1) mod (n+1) of the n database writes of this block's Commit
	Interf   []Interf   `json:"interf,omitempty"`
	// ---- off-chain / faults
	Q      *Interf `json:"q,omitempty"`
	Target int64   `json:"target,omitempty"` // rollback target offset / crash image mask
}

// Interf is one off-chain interference: a query, a CheckTx or a simulation, placed at a phase.
type Interf struct {
	Phase  string `json:"phase,omitempty"` // pre | begin | tx<i> | end | commit
	Kind   string `json:"kind"`            // query | checktx | simulate | dispatch
	Path   string `json:"path,omitempty"`
	Height int64  `json:"height,omitempty"` // offset back from the tip (0 = latest)
	Key    int    `json:"key,omitempty"`    // subject key index
	Ref    int    `json:"ref,omitempty"`    // tx id for checktx/simulate
	Tx     *Step  `json:"tx,omitempty"`     // inline tx for checktx/simulate
}

// TxRecord is a built transaction with its ground truth.
type TxRecord struct {
	Step            Step
	Msg             sdk.ProtoMsg
	Bytes           []byte
	Canon           []byte   // canonical encoding of the same signed content
	SignAddr        string   // hex address of the key that really signed ("" if none)
	Declared        []string // msg.GetSigners()
	FeeCoins        sdk.Coins
	BuildErr        string
	Resubmit        bool
	Ref             int
	Delivered       int   // number of deliveries with a non-empty diff
	lastEffectiveAt int64 // height of the latest of them
	Encs            []string
}

func (s *Sim) key(idx int) sdk.Address {
	if isMulti(idx) {
		mk, _ := MultiKeyFor(s.cfg.KeySeed, idx)
		return sdk.Address(mk.Address())
	}
	return AddrOf(KeyFor(s.cfg.KeySeed, idx))
}

// sendTo is the recipient of a send step: a key of the run or, with ToMod, a module account.
func (s *Sim) sendTo(st *Step) sdk.Address {
	if st.ToMod != "" {
		a, _ := sdk.AddressFromHex(ModuleAddr(st.ToMod))
		return a
	}
	return s.key(st.To)
}

// buildMsg constructs the message of a tx step.
func (s *Sim) buildMsg(st *Step) (sdk.ProtoMsg, error) {
	ks := s.cfg.KeySeed
	switch st.Kind {
	case "send":
		return &nodesTypes.MsgSend{FromAddress: s.key(st.From), ToAddress: s.sendTo(st), Amount: sdk.NewInt(st.Amount)}, nil
	case "node_stake":
		m := &nodesTypes.MsgStake{PublicKey: KeyFor(ks, st.From).PublicKey(), Chains: st.Chains, Value: sdk.NewInt(st.Amount),
			ServiceUrl: fmt.Sprintf("https://n%d.sim:443", st.From)}
		if st.Output >= 0 {
			m.Output = s.key(st.Output)
		}
		if len(st.Delegators) > 0 {
			m.RewardDelegators = map[string]uint32{}
			for _, d := range st.Delegators {
				m.RewardDelegators[s.key(d[0]).String()] = uint32(d[1])
			}
		}
		return m, nil
	case "node_unstake":
		return &nodesTypes.MsgBeginUnstake{Address: s.key(st.From), Signer: s.key(st.Declared)}, nil
	case "node_unjail":
		return &nodesTypes.MsgUnjail{ValidatorAddr: s.key(st.From), Signer: s.key(st.Declared)}, nil
	case "app_stake":
		// From is the key the message names (the new app key on a transfer)
		return &appsTypes.MsgStake{PubKey: KeyFor(ks, st.From).PublicKey(), Chains: st.Chains, Value: sdk.NewInt(st.Amount)}, nil
	case "app_unstake":
		return &appsTypes.MsgBeginUnstake{Address: s.key(st.From)}, nil
	case "app_unjail":
		return &appsTypes.MsgUnjail{AppAddr: s.key(st.From)}, nil
	case "gov_param":
		return &govTypes.MsgChangeParam{FromAddress: s.key(st.From), ParamKey: st.ParamKey, ParamVal: []byte(st.ParamVal)}, nil
	case "gov_dao":
		to := s.key(st.To)
		if st.ToMod != "" {
			to, _ = sdk.AddressFromHex(ModuleAddr(st.ToMod))
		}
		return &govTypes.MsgDAOTransfer{FromAddress: s.key(st.From), ToAddress: to, Amount: sdk.NewInt(st.Amount), Action: st.Action}, nil
	case "gov_upgrade":
		u := govTypes.Upgrade{Height: st.Upgrade.Height, Version: st.Upgrade.Version, Features: st.Upgrade.Features}
		return &govTypes.MsgUpgrade{Address: s.key(st.From), Upgrade: u}, nil
	}
	return nil, fmt.Errorf("unknown tx kind %q", st.Kind)
}

// buildTx signs and encodes the transaction of a step.
func (s *Sim) buildTx(st *Step) *TxRecord {
	rec := &TxRecord{Step: *st}
	msg, err := s.buildMsg(st)
	if err != nil {
		rec.BuildErr = err.Error()
		return rec
	}
	rec.Msg = msg
	for _, a := range msg.GetSigners() {
		rec.Declared = append(rec.Declared, a.String())
	}
	fee := sdk.NewCoins(sdk.NewCoin(sdk.DefaultStakeDenom, sdk.NewInt(st.Fee)))
	if st.Fee == 0 {
		fee = sdk.Coins{}
	}
	rec.FeeCoins = fee
	chain := ChainID
	if st.Sig == "otherchain" {
		chain = OtherChainID
	}
	priv := KeyFor(s.cfg.KeySeed, st.SignKey)
	signBytes, err := auth.StdSignBytes(chain, st.Entropy, fee, msg, st.Memo)
	if err != nil {
		rec.BuildErr = err.Error()
		return rec
	}
	sigBz, err := priv.Sign(signBytes)
	if err != nil {
		rec.BuildErr = err.Error()
		return rec
	}
	sig := authTypes.StdSignature{Signature: sigBz, PublicKey: priv.PublicKey()}
	signAddr := AddrOf(priv).String()
	if isMulti(st.SignKey) {
		mk, members := MultiKeyFor(s.cfg.KeySeed, st.SignKey)
		var ms posCrypto.MultiSig = posCrypto.MultiSignature{}.NewMultiSignature()
		for i, m := range members {
			b, err := m.Sign(signBytes)
			if err != nil {
				rec.BuildErr = err.Error()
				return rec
			}
			ms = ms.AddSignatureByIndex(b, i)
		}
		sigBz = ms.Marshal()
		sig = authTypes.StdSignature{Signature: sigBz, PublicKey: mk}
		signAddr = sdk.Address(mk.Address()).String()
	}
	switch st.Sig {
	case "flip":
		sig.Signature = append([]byte{}, sigBz...)
		sig.Signature[len(sigBz)/2] ^= 0x20
	case "none":
		sig.Signature = nil
	}
	if st.Sig == "ok" || st.Sig == "" {
		rec.SignAddr = signAddr
	}
	tx := authTypes.NewTx(msg, fee, sig, st.Memo, st.Entropy)
	bz, err := auth.DefaultTxEncoder(app.Codec())(tx, -1)
	if err != nil {
		rec.BuildErr = err.Error()
		return rec
	}
	bz = canonMapOrder(bz)
	rec.Bytes, rec.Canon = bz, bz
	return rec
}

// canonMapOrder makes the encoding of a transaction a function of its content. The generated
// marshaller of the node stake message writes its reward-delegator map in Go map iteration order,
// so the same message encodes to different (equally valid) bytes from one call to the next; a
// client may send any of them. The simulator must not let the Go runtime pick: the map entries
// (field 6 of the message inside the Any of field 1) are sorted bytewise in place. The entries
// are contiguous and sorting only permutes them, so every length prefix stays right.
func canonMapOrder(tx []byte) []byte {
	l, n := binary.Uvarint(tx)
	if n <= 0 || int(l) != len(tx)-n {
		return tx
	}
	out := append([]byte{}, tx...)
	body := out[n:]
	anyBz := pbField(body, 1)
	if anyBz == nil {
		return tx
	}
	msgBz := pbField(anyBz, 2)
	if msgBz == nil || !bytes.Contains(pbField(anyBz, 1), []byte("x.nodes.MsgProtoStake")) {
		return tx
	}
	// collect the runs of field-6 length-delimited entries
	type ent struct{ lo, hi int }
	var ents []ent
	for i := 0; i < len(msgBz); {
		start := i
		key, k := binary.Uvarint(msgBz[i:])
		if k <= 0 {
			return tx
		}
		i += k
		switch key & 7 {
		case 0:
			_, k = binary.Uvarint(msgBz[i:])
			if k <= 0 {
				return tx
			}
			i += k
		case 2:
			ln, k := binary.Uvarint(msgBz[i:])
			if k <= 0 || i+k+int(ln) > len(msgBz) {
				return tx
			}
			i += k + int(ln)
			if key>>3 == 6 {
				ents = append(ents, ent{start, i})
			}
		case 1:
			i += 8
		case 5:
			i += 4
		default:
			return tx
		}
	}
	if len(ents) < 2 {
		return tx
	}
	for j := 1; j < len(ents); j++ {
		if ents[j].lo != ents[j-1].hi {
			return tx
		}
	}
	raw := make([][]byte, len(ents))
	for j, e := range ents {
		raw[j] = append([]byte{}, msgBz[e.lo:e.hi]...)
	}
	sort.Slice(raw, func(a, b int) bool { return bytes.Compare(raw[a], raw[b]) < 0 })
	at := ents[0].lo
	for _, r := range raw {
		copy(msgBz[at:], r)
		at += len(r)
	}
	return out
}

// pbField returns the (aliased) payload of the first length-delimited field num of a message.
func pbField(m []byte, num uint64) []byte {
	for i := 0; i < len(m); {
		key, k := binary.Uvarint(m[i:])
		if k <= 0 {
			return nil
		}
		i += k
		switch key & 7 {
		case 0:
			_, k = binary.Uvarint(m[i:])
			if k <= 0 {
				return nil
			}
			i += k
		case 2:
			ln, k := binary.Uvarint(m[i:])
			if k <= 0 || i+k+int(ln) > len(m) {
				return nil
			}
			if key>>3 == num {
				return m[i+k : i+k+int(ln)]
			}
			i += k + int(ln)
		case 1:
			i += 8
		case 5:
			i += 4
		default:
			return nil
		}
	}
	return nil
}

// reencode produces different bytes that must decode to the same signed content.
func reencode(canon []byte, enc string) []byte {
	l, n := binary.Uvarint(canon)
	if n <= 0 || int(l) != len(canon)-n {
		return nil
	}
	body := canon[n:]
	putLen := func(x uint64, pad bool) []byte {
		buf := make([]byte, binary.MaxVarintLen64)
		k := binary.PutUvarint(buf, x)
		buf = buf[:k]
		if pad { // non-minimal: set the continuation bit on the last byte and append a zero group
			buf[k-1] |= 0x80
			buf = append(buf, 0x00)
		}
		return buf
	}
	switch enc {
	case "same":
		return append([]byte{}, canon...)
	case "overlong":
		return append(putLen(l, true), body...)
	case "unknown_field":
		// protobuf field 15, varint 0: unknown to StdTx, skipped by the decoder
		nb := append(append([]byte{}, body...), 0x78, 0x00)
		return append(putLen(uint64(len(nb)), false), nb...)
	case "unknown_field_front":
		nb := append([]byte{0x78, 0x00}, body...)
		return append(putLen(uint64(len(nb)), false), nb...)
	}
	return nil
}

// sameSignedContent reports whether two encodings decode (with the node's decoder) to the same
// StdTx value.
func sameSignedContent(a, b []byte, height int64) bool {
	dec := auth.DefaultTxDecoder(app.Codec())
	enc := auth.DefaultTxEncoder(app.Codec())
	ta, ea := dec(a, height)
	tb, eb := dec(b, height)
	if ea != nil || eb != nil {
		return false
	}
	ca, e1 := enc(ta, -1)
	cb, e2 := enc(tb, -1)
	return e1 == nil && e2 == nil && bytes.Equal(canonMapOrder(ca), canonMapOrder(cb))
}
