package chainsim

// Step generation. The generator may look at the simulated (committed) state to choose
// applicable targets, but every recorded step is concrete and self-contained.

import (
	"fmt"
	"sort"

	"verif/sim/core"

	"github.com/pokt-network/pocket-core/codec"
	sdk "github.com/pokt-network/pocket-core/types"
	appsTypes "github.com/pokt-network/pocket-core/x/apps/types"
	govTypes "github.com/pokt-network/pocket-core/x/gov/types"
	nodesTypes "github.com/pokt-network/pocket-core/x/nodes/types"
)

type generator struct {
	s          *Sim
	r          *core.Rand
	sinceBlock int
	downVictim int
	downLeft   int
	prof       profile
	redupState int   // C16: progress of redupPlan
	redupAt    int64 // activation height the plan scheduled
	redupTx    int   // id of the transaction it sends twice
}

// profile: relative weights of step kinds and tx kinds for the property being checked.
type profile struct {
	tx, block, resubmit, offchain, restart int
	relay, claims                          int
	relayMut, forge                        float64
	kinds                                  map[string]int
	badSig, badKey, badFee                 float64
	midBlockInterf                         float64
	simulateShare                          float64
}

func baseProfile() profile {
	return profile{tx: 55, block: 28, resubmit: 3, offchain: 4, restart: 1, relay: 5, claims: 5, relayMut: 0.1, forge: 0.05,
		kinds: map[string]int{"send": 30, "node_stake": 14, "node_unstake": 6, "node_unjail": 5, "app_stake": 8, "app_unstake": 3,
			"gov_param": 6, "gov_dao": 4, "gov_upgrade": 1},
		badSig: 0.06, badKey: 0.08, badFee: 0.08}
}

func profileFor(prop string) profile {
	p := baseProfile()
	switch prop {
	case "C11":
		p.offchain, p.midBlockInterf, p.simulateShare = 25, 0.5, 0.4
	case "C13", "C09":
		p.offchain, p.midBlockInterf, p.restart = 25, 0.4, 4
	case "C14":
		p.badSig, p.badKey = 0.25, 0.3
	case "C15":
		p.badFee, p.badSig = 0.4, 0.1
	case "C16":
		p.resubmit = 25
	case "C18":
		p.kinds["send"] = 120
	case "C36", "C37":
		p.kinds["gov_param"], p.kinds["gov_dao"], p.kinds["gov_upgrade"] = 40, 30, 12
		p.badKey = 0.3
		if prop == "C37" {
			p.kinds["gov_upgrade"], p.restart = 60, 6
		}
	case "C19", "C21", "C22", "C23", "C24", "C25":
		p.kinds["node_stake"], p.kinds["node_unstake"], p.kinds["node_unjail"] = 50, 20, 20
		p.kinds["gov_param"] = 10
		if prop == "C25" || prop == "C19" {
			p.relay, p.claims = 14, 14
		}
	case "C20", "C28":
		p.kinds["app_stake"], p.kinds["app_unstake"] = 60, 20
	case "C04", "C12":
		p.restart = 6
	case "C26", "C29", "C31", "C32":
		p.tx, p.relay, p.claims, p.block = 25, 22, 22, 40
	case "C30":
		p.tx, p.relay, p.claims, p.block, p.forge = 25, 22, 22, 40, 0.6
	case "C33":
		p.relay, p.claims, p.restart = 30, 6, 4
		p.kinds["node_stake"], p.kinds["node_unjail"] = 30, 15
	case "C35":
		p.tx, p.relay, p.claims, p.relayMut = 25, 40, 6, 0.7
	}
	if prop == "C13" {
		p.relay, p.claims = 15, 10
	}
	return p
}

func newGenerator(s *Sim, r *core.Rand) *generator {
	g := &generator{s: s, r: r, prof: profileFor(s.prop), downVictim: -1}
	if s.cfg.StartHeight > 0 {
		// plain transactions and blocks only: at those heights rewards and slashing follow replay
		// branches of main-net history which the properties do not describe
		g.prof.relay, g.prof.claims, g.prof.restart, g.prof.offchain = 0, 0, 0, 0
		g.prof.tx, g.prof.block = 50, 50
	}
	return g
}

// tuneForProperty adjusts the swarm configuration where a property needs a region to be reachable.
func tuneForProperty(c *Config, prop string, r *core.Rand) {
	switch prop {
	case "C24":
		c.NodeUnstakingSecs = int64([]int{1, 900, 3600}[r.Intn(3)])
		c.AppUnstakingSecs = int64([]int{1, 900, 3600}[r.Intn(3)])
		if r.Chance(0.5) {
			// nodes that stay jailed are force-unstaked early in the run, released, paid out and
			// deleted, so that the same keys can stake again while the run lasts
			c.MaxJailedBlocks = int64(r.Range(2, 5))
			c.DowntimeJailSecs = 60
		}
	case "C25":
		c.DowntimeJailSecs = int64([]int{60, 1800}[r.Intn(2)])
		c.MaxJailedBlocks = int64(r.Range(3, 10))
	case "C26", "C29", "C30", "C31", "C32", "C33", "C35", "C13":
		// relay traffic needs applications whose allowance covers tens of relays per node
		c.BaseRelaysPerPOKT = int64([]int{20000, 200000}[r.Intn(2)])
		if prop == "C32" && r.Chance(0.3) {
			// allowances of a few dozen relays per session: a node reaches its share, and the rounding
			// of the share matters
			c.BaseRelaysPerPOKT = int64([]int{700, 1000, 1500}[r.Intn(3)])
		}
		c.ClaimExpiration = int64(r.Range(8, 30))
		// a session needs SessionNodeCount servicers on the chain; the second chain is served by
		// every other genesis node only
		if prop == "C33" {
			// session sizes around the number of eligible nodes: the first chain is served by every
			// genesis node, the second by every other one; jailing then moves the population across
			// the boundary in both directions
			lo := c.NNodes/2 - 1
			if lo < 1 {
				lo = 1
			}
			c.SessionNodeCount = int64(r.Range(lo, c.NNodes))
		} else if half := int64(c.NNodes / 2); c.SessionNodeCount > half && r.Chance(0.8) {
			c.SessionNodeCount = half
			if c.SessionNodeCount < 1 {
				c.SessionNodeCount = 1
			}
		}
		if prop == "C32" && r.Chance(0.5) {
			// short-lived claims, so that expiry of unproved claims is reached inside a run
			c.ClaimExpiration = c.ClaimWindow + int64(r.Range(1, 3))
		}
		if prop == "C26" && r.Chance(0.5) {
			delete(c.Features, "RSCAL") // reward formula exact in integers
		}
	}
	if prop == "C25" || prop == "C19" {
		// challenge-type burns: a proof through a double-counted relay is punished with
		// claimed relays x ReplayAttackBurnMultiplier, which for large multipliers exceeds what is
		// left of the stake
		c.BaseRelaysPerPOKT = int64([]int{20000, 200000}[r.Intn(2)])
		c.ReplayBurnMult = int64([]int{3, 100_000, 1_000_000, 3_000_000}[r.Intn(4)])
		if half := int64(c.NNodes / 2); c.SessionNodeCount > half {
			c.SessionNodeCount = half
			if c.SessionNodeCount < 1 {
				c.SessionNodeCount = 1
			}
		}
	}
	if prop == "C43" && r.Chance(0.6) {
		// the features that add ACL keys at activation make every later export un-importable (a
		// recorded finding); leave them out in most runs so that the rest of the import is reached
		for _, f := range []string{"BLOCK", "RSCAL", "PerChainRTTM"} {
			delete(c.Features, f)
		}
	}
	// staggered activation: some features are left unscheduled in genesis and arrive by upgrade
	// transactions during the run (verdict-bearing only where the statement mentions activation)
	if prop == "C35" {
		// node configuration: relays may still name the previous session on every third node
		c.SessionSyncAllowance = []int{0, 0, 1}[r.Intn(3)]
	}
	if prop == "C16" && r.Chance(0.35) {
		// the in-block duplicate cache is a feature too: left out of genesis, it arrives by an upgrade
		// transaction during the run, and the block at its activation height gets a duplicate
		delete(c.Features, "REDUP")
	}
	switch prop {
	case "C14", "C22", "C23", "C37":
		for _, f := range []string{"OEDIT", "AppTransfer", "RewardDelegators", "CRVAL", "PerChainRTTM", "MAXCH", "VEDIT"} {
			if r.Chance(0.4) {
				delete(c.Features, f)
			}
		}
	}
}

func (g *generator) allKeys() []int {
	c := g.s.cfg
	var k []int
	for i := 0; i < c.NWallets; i++ {
		k = append(k, walletBase+i)
	}
	for i := 0; i < c.NNodes; i++ {
		k = append(k, nodeBase+i, outputBase+i)
	}
	for i := 0; i < c.NApps; i++ {
		k = append(k, appBase+i)
	}
	for i := 0; i < c.NSpare; i++ {
		k = append(k, spareBase+i)
	}
	return k
}

func (g *generator) pick(keys []int) int { return keys[g.r.Intn(len(keys))] }

func (g *generator) wallet() int { return walletBase + g.r.Intn(g.s.cfg.NWallets) }

// keyIndexOf maps a hex address back to a key index (-1 if it is none of the run's keys).
func (s *Sim) keyIndexOf(addr string) int {
	if s.addrIdx == nil {
		s.addrIdx = map[string]int{}
		c := s.cfg
		add := func(base, n int) {
			for i := 0; i < n; i++ {
				s.addrIdx[s.key(base+i).String()] = base + i
			}
		}
		add(walletBase, c.NWallets)
		add(nodeBase, c.NNodes)
		add(outputBase, c.NNodes)
		add(appBase, c.NApps)
		add(spareBase, c.NSpare)
		add(multiBase, nMulti)
	}
	if i, ok := s.addrIdx[addr]; ok {
		return i
	}
	return -1
}

// redupPlan (C16, configurations without the duplicate-cache feature in genesis): schedule the
// feature by an upgrade transaction, and put one transaction twice into the block at its
// activation height.
func (g *generator) redupPlan() *Step {
	s := g.s
	if s.prop != "C16" {
		return nil
	}
	if _, inGenesis := s.cfg.Features["REDUP"]; inGenesis {
		return nil
	}
	h := s.drv.Height
	switch g.redupState {
	case 0:
		if !g.r.Chance(0.15) {
			return nil
		}
		g.redupAt = h + 3
		g.redupState = 1
		st := &Step{Op: "tx", ID: s.nextID, Kind: "gov_upgrade", From: s.cfg.OwnerKey, SignKey: s.cfg.OwnerKey, Sig: "ok", Fee: baseFee, Output: -1,
			Upgrade: &UpgradeSpec{Height: 1, Version: "FEATURE", Features: []string{fmt.Sprintf("REDUP:%d", g.redupAt)}}}
		s.nextID++
		s.entropy++
		st.Entropy = s.entropy
		return st
	case 1, 2:
		// blocks up to the one before the activation height
		if h < g.redupAt-1 {
			g.redupState = 2
			g.sinceBlock = 0
			return &Step{Op: "block", DtS: 900}
		}
		if h > g.redupAt-1 {
			g.redupState = 9
			return nil
		}
		g.redupState = 3
		st := &Step{Op: "tx", ID: s.nextID, Kind: "send", From: walletBase, To: walletBase + 1, Amount: 1000, SignKey: walletBase, Sig: "ok", Fee: baseFee, Output: -1}
		s.nextID++
		s.entropy++
		st.Entropy = s.entropy
		g.redupTx = st.ID
		return st
	case 3:
		g.redupState = 4
		return &Step{Op: "resubmit", Ref: g.redupTx, Enc: "same"}
	case 4:
		g.redupState = 9
		g.sinceBlock = 0
		return &Step{Op: "block", DtS: 900}
	}
	return nil
}

func (g *generator) next() *Step {
	if st := g.redupPlan(); st != nil {
		return st
	}
	p := g.prof
	w := []int{p.tx, p.block, p.resubmit, p.offchain, p.restart, p.relay, p.claims}
	if g.sinceBlock > 10 {
		w[1] += 200
	}
	if len(g.s.txs) == 0 {
		w[2] = 0
	}
	switch g.r.Weighted(w) {
	case 0:
		g.sinceBlock++
		return g.genTx()
	case 1:
		g.sinceBlock = 0
		return g.genBlock()
	case 2:
		return g.genResubmit()
	case 3:
		q := g.genInterf("")
		return &Step{Op: "offchain", Q: &q}
	case 4:
		return &Step{Op: "restart"}
	case 5:
		return g.genRelay()
	default:
		return g.genClaims()
	}
}

func (g *generator) genRelay() *Step {
	r, s, c := g.r, g.s, g.s.cfg
	st := &Step{Op: "relay", From: appBase + r.Intn(c.NApps), Amount: int64(r.Range(5, 40))}
	if r.Chance(0.15) {
		st.Amount = int64(r.Range(1, 140))
	}
	chain := c.Chains[0]
	if v := s.committedView; v != nil {
		// follow a transferred application to its new key if there is one
		if a, ok := v.Apps[s.key(st.From).String()]; ok && len(a.Chains) > 0 {
			chain = a.Chains[r.Intn(len(a.Chains))]
		}
	}
	st.Chains = []string{chain}
	if r.Chance(g.prof.relayMut) {
		st.Action = relayMutations[r.Intn(len(relayMutations))]
	}
	return st
}

func (g *generator) genClaims() *Step {
	r := g.r
	st := &Step{Op: "claims"}
	x := r.Float64()
	if (g.s.prop == "C25" || g.s.prop == "C19") && r.Chance(0.45) {
		st.Action = "dup-evidence" // leads to a replay-attack burn of the servicer
		return st
	}
	switch {
	case x < g.prof.forge*0.7:
		st.Action = "forge:" + proofMutations[r.Intn(len(proofMutations)-1)]
	case x < g.prof.forge:
		st.Action = "dup-evidence"
	case x < g.prof.forge+0.12 && g.s.prop == "C31":
		st.Action = "early-proof"
	case x < g.prof.forge+0.1 && g.s.prop == "C43":
		// a second claim for the same session under the other evidence type: the export has to
		// carry both
		st.Action = "mistype"
	case x < g.prof.forge+0.1 && g.s.prop == "C32":
		st.Action = []string{"outsider-claim", "mistype", "mistype", "shift-height"}[r.Intn(4)]
	case x < g.prof.forge+0.1:
		st.Action = "claims-only"
	case x < g.prof.forge+0.2:
		st.Action = "proofs-only"
	}
	return st
}

func (g *generator) genResubmit() *Step {
	ids := make([]int, 0, len(g.s.txs))
	for id := range g.s.txs {
		ids = append(ids, id)
	}
	sort.Ints(ids)
	// favour recent transactions
	id := ids[len(ids)-1-g.r.Intn(minInt(len(ids), 6))]
	enc := []string{"same", "same", "overlong", "unknown_field", "unknown_field_front"}[g.r.Intn(5)]
	return &Step{Op: "resubmit", Ref: id, Enc: enc}
}

func (g *generator) genBlock() *Step {
	r := g.r
	st := &Step{Op: "block"}
	st.DtS = int64([]int{1, 60, 900, 900, 900, 3600, 86400, 2592000}[r.Intn(8)])
	st.Proposer = r.Intn(8)
	if g.downLeft > 0 {
		st.Absent = []int{g.downVictim}
		g.downLeft--
	} else if r.Chance(0.12) {
		g.downVictim = r.Intn(8)
		g.downLeft = r.Range(2, int(g.s.cfg.SignedBlocksWindow))
		st.Absent = []int{g.downVictim}
	} else if r.Chance(0.1) {
		st.Absent = []int{r.Intn(8)}
	}
	pEv := 0.05
	if g.s.prop == "C25" {
		pEv = 0.15
	}
	if r.Chance(pEv) {
		// double-sign evidence names a validator of the height it is about, which may be several
		// blocks back: the culprit may have been jailed or have left the set since
		st.Evidence = [][3]int64{{int64(r.Intn(8)), int64([]int{0, 1, 2, 3, 6, 10}[r.Intn(6)]), int64(r.Range(0, 7200))}}
	}
	if r.Chance(0.15) {
		st.Shuffle = int64(r.Range(1, 7))
	}
	pCrash := 0.0
	switch g.s.prop {
	case "C07":
		pCrash = 0.5
	case "C04", "C12", "C13":
		pCrash = 0.05
	}
	if pCrash > 0 && r.Chance(pCrash) {
		st.CrashAt = r.Range(1, 60)
	}
	if g.prof.midBlockInterf > 0 && r.Chance(g.prof.midBlockInterf) {
		phases := []string{"pre", "begin", "tx0", "tx1", "end", "commit"}
		for k := r.Range(1, 3); k > 0; k-- {
			st.Interf = append(st.Interf, g.genInterf(phases[r.Intn(len(phases))]))
		}
	}
	return st
}

func (g *generator) genInterf(phase string) Interf {
	r := g.r
	q := Interf{Phase: phase}
	x := r.Float64()
	if (g.s.prop == "C13" || g.s.prop == "C33") && r.Chance(0.25) {
		q.Kind = "dispatch"
		q.Key = appBase + r.Intn(g.s.cfg.NApps)
		q.Path = g.s.cfg.Chains[r.Intn(len(g.s.cfg.Chains))]
		return q
	}
	switch {
	case x < g.prof.simulateShare:
		q.Kind = "simulate"
		tx := g.genTx()
		if r.Chance(0.5) {
			tx.Sig = []string{"none", "flip", "ok"}[r.Intn(3)]
		}
		if r.Chance(0.12) {
			// simulating an upgrade must be as harmless as simulating anything else; a simulation
			// never reaches a block, so version upgrades (kept out of blocks, DESIGN §7) are fair game
			tx.Kind, tx.From, tx.SignKey = "gov_upgrade", g.s.cfg.OwnerKey, g.s.cfg.OwnerKey
			if r.Chance(0.5) {
				tx.Upgrade = &UpgradeSpec{Height: g.s.drv.Height + int64(r.Range(1, 40)), Version: fmt.Sprintf("0.%d.0", r.Range(13, 20))}
			} else {
				tx.Upgrade = &UpgradeSpec{Height: 1, Version: "FEATURE", Features: []string{fmt.Sprintf("%s:%d", allFeatures[r.Intn(len(allFeatures))], g.s.drv.Height+int64(r.Range(1, 40)))}}
			}
		}
		tx.ID = 0
		q.Tx = tx
		if r.Chance(0.15) {
			// an unsigned proof for one of this node's pending claims, with a made-up merkle path
			q.Tx = &Step{Op: "tx", Kind: "bad_proof", Sig: "none", Output: -1}
		}
	case x < g.prof.simulateShare+0.2:
		q.Kind = "checktx"
		tx := g.genTx()
		tx.ID = 0
		q.Tx = tx
		if r.Chance(0.4) {
			q.Path = "recheck"
		}
	default:
		q.Kind = "query"
		paths := []string{"balance", "account", "node", "app", "nodes", "apps", "params", "supply", "claims", "upgrade", "store", "version",
			"custom_app", "custom_app", "custom_apps", "custom_node", "custom_nodes", "custom_balance", "custom_params"}
		q.Path = paths[r.Intn(len(paths))]
		q.Height = int64([]int{0, 0, 1, 2, 5, 9}[r.Intn(6)])
		switch q.Path {
		case "node", "custom_node":
			q.Key = nodeBase + r.Intn(g.s.cfg.NNodes)
		case "app", "custom_app":
			q.Key = appBase + r.Intn(g.s.cfg.NApps)
		default:
			q.Key = g.pick(g.allKeys())
		}
	}
	return q
}

func (g *generator) kindWeights() ([]string, []int) {
	names := make([]string, 0, len(g.prof.kinds))
	for k := range g.prof.kinds {
		names = append(names, k)
	}
	sort.Strings(names)
	w := make([]int, len(names))
	for i, k := range names {
		w[i] = g.prof.kinds[k]
	}
	return names, w
}

func (g *generator) genTx() *Step {
	r, s, c := g.r, g.s, g.s.cfg
	names, w := g.kindWeights()
	kind := names[r.Weighted(w)]
	st := &Step{Op: "tx", ID: s.nextID, Kind: kind, Sig: "ok", Fee: baseFee, Output: -1}
	s.nextID++
	s.entropy++
	st.Entropy = s.entropy
	v := s.committedView
	nodeKey := func() int {
		if r.Chance(0.25) && c.NSpare > 0 {
			return spareBase + r.Intn(c.NSpare)
		}
		return nodeBase + r.Intn(c.NNodes)
	}
	outputOf := func(nodeIdx int) int {
		if v != nil {
			if val, ok := v.Validators[s.key(nodeIdx).String()]; ok && val.OutputAddress != nil {
				if i := s.keyIndexOf(val.OutputAddress.String()); i >= 0 {
					return i
				}
			}
		}
		if nodeIdx >= nodeBase && nodeIdx < nodeBase+c.NNodes {
			return outputBase + (nodeIdx - nodeBase)
		}
		return nodeIdx
	}
	switch kind {
	case "send":
		st.From = g.pick(g.allKeys())
		st.To = g.pick(g.allKeys())
		if r.Chance(0.1) {
			st.To = 900 + r.Intn(4) // a fresh recipient
		}
		if r.Chance(0.08) {
			st.To = st.From
		}
		if r.Chance(0.08) {
			st.To = multiBase + r.Intn(nMulti)
		}
		if r.Chance(0.05) {
			// to the address of a module account
			st.ToMod = []string{nodesTypes.StakedPoolName, appsTypes.StakedPoolName, "dao"}[r.Intn(3)]
		}
		if r.Chance(0.1) {
			// from a multi-signature account: every member signs
			st.From = multiBase + r.Intn(nMulti)
		}
		bal := int64(0)
		if v != nil {
			bal = v.Balance(s.key(st.From).String()).Int64()
		}
		switch r.Intn(8) {
		case 0:
			st.Amount = 1
		case 1:
			st.Amount = bal - baseFee
		case 2:
			st.Amount = bal
		case 3:
			st.Amount = bal + 1
		case 4:
			st.Amount = bal - baseFee + 1
		default:
			st.Amount = int64(r.Range(1, 5_000_000))
		}
		if st.Amount <= 0 {
			st.Amount = 1
		}
		st.SignKey = st.From
	case "node_stake":
		st.From = nodeKey()
		cur := int64(0)
		exists := false
		if v != nil {
			if val, ok := v.Validators[s.key(st.From).String()]; ok {
				cur, exists = val.StakedTokens.Int64(), true
			}
		}
		if exists {
			st.Amount = cur + []int64{0, 0, 1, 1_000_000, 3_000_000, -1, -1_000_000}[r.Intn(7)]
		} else {
			// (incl. stakes a downtime slash leaves above the minimum and a double-sign slash does not)
			st.Amount = c.StakeMinimum + []int64{0, 1_000_000, 5_000_000, -1, 20_000_000, 300_000, 600_000}[r.Intn(7)]
		}
		st.Chains = g.genChains(int(c.NodeMaxChains))
		st.Output = outputOf(st.From)
		if r.Chance(0.15) {
			st.Output = g.pick(g.allKeys()) // try to change (or set) the output address
		}
		if r.Chance(0.05) {
			st.Output = -1
		}
		pDel := 0.25
		if s.prop == "C26" {
			pDel = 0.6
		}
		if r.Chance(pDel) {
			keys := g.allKeys()
			if r.Chance(0.35) {
				// delegators that have no account yet: their first reward creates the account, and the
				// order in which a block creates accounts is part of what its app hash depends on
				keys = nil
				for i := 0; i < 40; i++ {
					keys = append(keys, freshBase+i)
				}
			}
			perm := r.Perm(len(keys))
			take := func(i int) int { return keys[perm[i%len(perm)]] }
			switch r.Weighted([]int{40, 25, 15, 10, 10}) {
			case 0: // a few arbitrary shares, usually summing to less than 100
				n := r.Range(1, 4)
				total := 0
				for i := 0; i < n; i++ {
					share := r.Range(1, 40)
					if total+share > 100 && r.Chance(0.9) {
						break
					}
					total += share
					st.Delegators = append(st.Delegators, [2]int{take(i), share})
				}
			case 1: // shares summing to exactly 100 over 2-5 delegators (nothing left for the output address but rounding)
				n := r.Range(2, 5)
				left := 100
				for i := 0; i < n; i++ {
					share := left
					if i < n-1 {
						share = r.Range(1, left-(n-1-i))
					}
					left -= share
					st.Delegators = append(st.Delegators, [2]int{take(i), share})
				}
			case 2: // many small delegators
				n := r.Range(8, 25)
				if n > len(keys) {
					n = len(keys)
				}
				for i := 0; i < n; i++ {
					st.Delegators = append(st.Delegators, [2]int{take(i), r.Range(1, 4)})
				}
			case 3: // one delegator takes everything
				st.Delegators = append(st.Delegators, [2]int{take(0), 100})
			case 4: // edge shares the message validation has to judge (0, over 100 in total)
				st.Delegators = append(st.Delegators, [2]int{take(0), []int{0, 101, 60}[r.Intn(3)]}, [2]int{take(1), []int{50, 41, 1}[r.Intn(3)]})
			}
		}
		// who signs: operator or (current) output address
		if r.Chance(0.6) {
			st.SignKey = st.From
		} else {
			st.SignKey = outputOf(st.From)
		}
	case "node_unstake", "node_unjail":
		st.From = nodeKey()
		if kind == "node_unjail" && v != nil && r.Chance(0.8) {
			// prefer a jailed node
			var jailed []int
			for addr, val := range v.Validators {
				if val.Jailed {
					if i := s.keyIndexOf(addr); i >= 0 {
						jailed = append(jailed, i)
					}
				}
			}
			sort.Ints(jailed)
			if len(jailed) > 0 {
				st.From = jailed[r.Intn(len(jailed))]
			}
		}
		if r.Chance(0.55) {
			st.Declared = st.From
		} else {
			st.Declared = outputOf(st.From)
		}
		st.SignKey = st.Declared
	case "app_stake":
		if r.Chance(0.2) && c.NApps > 0 {
			// transfer: an existing app signs over a fresh key
			st.SignKey = appBase + r.Intn(c.NApps)
			st.From = 950 + r.Intn(6)
			st.Amount = 0
			if r.Chance(0.35) && v != nil {
				// onto a key that already has an application record (staked, unstaking, jailed):
				// must be refused, or that application's record and stake would be overwritten
				var taken, unstaking []int
				for addr, a := range v.Apps {
					if i := s.keyIndexOf(addr); i >= 0 && i != st.SignKey {
						taken = append(taken, i)
						if a.Status == sdk.Unstaking {
							unstaking = append(unstaking, i)
						}
					}
				}
				sort.Ints(taken)
				sort.Ints(unstaking)
				if len(unstaking) > 0 && r.Chance(0.7) {
					st.From = unstaking[r.Intn(len(unstaking))]
				} else if len(taken) > 0 {
					st.From = taken[r.Intn(len(taken))]
				}
			}
		} else {
			if r.Chance(0.4) && c.NSpare > 0 {
				st.From = spareBase + r.Intn(c.NSpare)
			} else {
				st.From = appBase + r.Intn(c.NApps)
			}
			cur := int64(0)
			if v != nil {
				if a, ok := v.Apps[s.key(st.From).String()]; ok {
					cur = a.StakedTokens.Int64()
				}
			}
			if cur > 0 {
				st.Amount = cur + []int64{0, 1, 1_000_000, -1}[r.Intn(4)]
			} else {
				st.Amount = c.AppStakeMin + []int64{0, 1_000_000, -1, 50_000_000}[r.Intn(4)]
			}
			st.Chains = g.genChains(int(c.AppMaxChains))
			st.SignKey = st.From
		}
	case "app_unstake", "app_unjail":
		st.From = appBase + r.Intn(c.NApps)
		if r.Chance(0.2) && c.NSpare > 0 {
			st.From = spareBase + r.Intn(c.NSpare)
		}
		st.SignKey = st.From
	case "gov_param":
		st.ParamKey, st.ParamVal = g.genParam()
		st.From = c.OwnerKey
		// the owner the access-control list names for this key; sometimes the owner of OTHER keys
		if v != nil {
			if o := s.aclOwner(v, st.ParamKey); o != "" {
				if i := s.keyIndexOf(o); i >= 0 {
					st.From = i
				}
			}
		}
		if c.SplitACL && r.Chance(0.2) {
			st.From = []int{c.OwnerKey, 1}[r.Intn(2)]
		}
		st.SignKey = st.From
	case "gov_dao":
		st.From = c.OwnerKey
		st.SignKey = st.From
		st.To = g.pick(g.allKeys())
		st.Action = []string{"dao_transfer", "dao_transfer", "dao_burn"}[r.Intn(3)]
		if r.Chance(0.12) {
			// to a module account, the DAO's own included (a transfer to itself must leave it unchanged)
			st.ToMod = []string{"dao", "dao", "fee_collector"}[r.Intn(3)]
		}
		dao := int64(0)
		if v != nil {
			dao = v.ModuleBalance("dao").Int64()
		}
		st.Amount = []int64{1, 1000, dao, dao + 1, dao / 2}[r.Intn(5)]
		if st.Amount <= 0 {
			st.Amount = 1
		}
	case "gov_upgrade":
		st.From = c.OwnerKey
		st.SignKey = st.From
		// Feature upgrades only. A version upgrade moves the legacy codec-upgrade height, which at
		// simulation heights re-runs the amino->proto state conversion: outside the protocol era
		// the properties describe (DESIGN.md §7).
		feats := []string{}
		var unscheduled []string
		for _, f := range allFeatures {
			if _, ok := codec.UpgradeFeatureMap[f]; !ok {
				unscheduled = append(unscheduled, f)
			}
		}
		for k := r.Range(1, 3); k > 0; k-- {
			if len(unscheduled) > 0 && r.Chance(0.8) {
				i := r.Intn(len(unscheduled))
				feats = append(feats, fmt.Sprintf("%s:%d", unscheduled[i], s.drv.Height+int64(r.Range(1, 8))))
				unscheduled = append(unscheduled[:i], unscheduled[i+1:]...)
			} else {
				// restating an already scheduled feature at its scheduled height changes nothing
				f := allFeatures[r.Intn(len(allFeatures))]
				if hgt, ok := codec.UpgradeFeatureMap[f]; ok {
					feats = append(feats, fmt.Sprintf("%s:%d", f, hgt))
				}
			}
		}
		if len(feats) == 0 {
			feats = append(feats, fmt.Sprintf("%s:%d", "NCUST", codec.UpgradeFeatureMap["NCUST"]))
		}
		if r.Chance(0.1) {
			feats = []string{} // an upgrade message that names no feature leaves the schedule as it is
		}
		st.Upgrade = &UpgradeSpec{Height: 1, Version: "FEATURE", Features: feats}
	}
	// adversarial treatments
	x := r.Float64()
	switch {
	case x < g.prof.badSig:
		st.Sig = []string{"flip", "none", "otherchain"}[r.Intn(3)]
	case x < g.prof.badSig+g.prof.badKey:
		// signed by a key with no relation to the message; the message may still name it
		st.SignKey = g.pick(g.allKeys())
		if (kind == "node_unstake" || kind == "node_unjail") && r.Chance(0.5) {
			st.Declared = st.SignKey
		}
		if (kind == "gov_param" || kind == "gov_dao" || kind == "gov_upgrade") && r.Chance(0.6) {
			st.From = st.SignKey
		}
	}
	if r.Chance(g.prof.badFee) {
		st.Fee = []int64{0, 1, baseFee - 1, baseFee + 1, 2 * baseFee, 1 << 40}[r.Intn(6)]
	}
	if r.Chance(0.1) {
		st.Via = "checktx"
	}
	if r.Chance(0.05) {
		st.Memo = "m"
	}
	return st
}

func (g *generator) genChains(max int) []string {
	c := g.s.cfg
	n := g.r.Range(1, len(c.Chains))
	out := append([]string{}, c.Chains[:n]...)
	if g.r.Chance(0.08) {
		out = append(out, "00ff", "00fe", "00fd")
	}
	if g.s.prop == "C21" && g.r.Chance(0.1) {
		out = append(out[:1], "00") // a network identifier of one byte (the message validation takes it)
	}
	return out
}

func (g *generator) genParam() (string, string) {
	r, c := g.r, g.s.cfg
	q := func(n int64) string { return fmt.Sprintf("%q", fmt.Sprint(n)) }
	type pv struct{ k, v string }
	opts := []pv{
		{"pos/MaxValidators", q(int64(r.Range(1, c.NNodes+2)))},
		{"pos/StakeMinimum", q(c.StakeMinimum + int64(r.Range(-2, 6))*1_000_000)},
		{"pos/BlocksPerSession", q(int64(r.Range(1, 6)))},
		// never adding up to more than 100: the change message is not validated, the servicer's
		// portion of a reward then turns negative, and the servicer's own node dies in its metrics
		// goroutine ("counter cannot decrease in value") when it processes its proof; a panic in a
		// goroutine ends the simulation process too (DESIGN.md: node-killing inputs)
		{"pos/DAOAllocation", q(int64(r.Range(0, 50)))},
		{"pos/ProposerPercentage", q(int64(r.Range(0, 50)))},
		{"pos/MaxJailedBlocks", q(int64(r.Range(2, 40)))},
		{"pos/SignedBlocksWindow", q(int64(r.Range(3, 12)))},
		{"pos/MaximumChains", q(int64(r.Range(1, 4)))},
		{"pos/RelaysToTokensMultiplier", q(int64(r.Range(1, 5000)))},
		{"application/MaxApplications", q(int64(r.Range(1, 8)))},
		{"application/ApplicationStakeMinimum", q(c.AppStakeMin + int64(r.Range(0, 3))*1_000_000)},
		{"application/MaximumChains", q(int64(r.Range(1, 4)))},
		{"application/BaseRelaysPerPOKT", q(int64(r.Range(1, 500)))},
		{"pocketcore/ClaimExpiration", q(int64(r.Range(4, 40)))},
		{"pocketcore/SessionNodeCount", q(int64(r.Range(1, 5)))},
		{"pocketcore/ClaimSubmissionWindow", q(int64(r.Range(1, 4)))},
		// never 1: with a minimum of one proof the node builds a merkle tree over a single relay and
		// panics (types/merkle.go root: "dataLength must be > 1 or this breaks"), in production inside
		// the EndBlock goroutine, which ends the process; no listed property covers that crash
		{"pocketcore/MinimumNumberOfProofs", q(int64(r.Range(2, 10)))},
		{"auth/MaxMemoCharacters", q(int64(r.Range(10, 200)))},
		{"pos/UnstakingTime", q(int64(r.Range(1, 7200)) * 1_000_000_000)},
		{"pos/DowntimeJailDuration", q(int64(r.Range(60, 7200)) * 1_000_000_000)},
	}
	if g.s.prop == "C43" {
		// an export is re-imported through genesis validation: keep parameter changes inside the
		// domain a genesis file may carry
		opts = []pv{
			{"pos/MaxValidators", q(int64(r.Range(1, c.NNodes+2)))},
			{"pos/StakeMinimum", q(c.StakeMinimum + int64(r.Range(0, 6))*1_000_000)},
			{"pos/BlocksPerSession", q(int64(r.Range(2, 6)))},
			{"pos/DAOAllocation", q(int64(r.Range(0, 50)))},
			{"pos/ProposerPercentage", q(int64(r.Range(0, 50)))},
			{"pos/MaxJailedBlocks", q(int64(r.Range(2, 40)))},
			{"pos/SignedBlocksWindow", q(int64(r.Range(10, 14)))},
			{"pos/RelaysToTokensMultiplier", q(int64(r.Range(1, 5000)))},
			{"application/MaxApplications", q(int64(r.Range(1, 8)))},
			{"application/BaseRelaysPerPOKT", q(int64(r.Range(1, 500)))},
			{"pocketcore/ClaimExpiration", q(int64(r.Range(6, 40)))},
			{"pocketcore/SessionNodeCount", q(int64(r.Range(1, 5)))},
			{"pocketcore/ClaimSubmissionWindow", q(int64(r.Range(2, 4)))},
			{"pos/UnstakingTime", q(int64(r.Range(1, 7200)) * 1_000_000_000)},
			{"pos/DowntimeJailDuration", q(int64(r.Range(60, 7200)) * 1_000_000_000)},
		}
	}
	if g.s.prop == "C37" && r.Chance(0.25) {
		// the upgrade record itself, through the parameter-change message: same height and version,
		// a feature list of the sender's choosing
		up := govTypes.NewUpgrade(c.UpgradeHeight, "0.12.0")
		up.OldUpgradeHeight = c.CodecUpgradeHeight
		n := r.Range(0, 3)
		for i := 0; i < n; i++ {
			up.Features = append(up.Features, fmt.Sprintf("%s:%d", allFeatures[r.Intn(len(allFeatures))], g.s.drv.Height+int64(r.Range(1, 12))))
		}
		if bz, err := govTypes.ModuleCdc.MarshalJSON(up); err == nil {
			return "gov/upgrade", string(bz)
		}
	}
	o := opts[r.Intn(len(opts))]
	if r.Chance(0.05) {
		return o.k, `"not-a-number"`
	}
	return o.k, o.v
}

var _ = sdk.ZeroInt
