package chainsim

import (
	"bytes"
	"testing"

	"verif/sim/core"
)

func TestTxEncodingIsAFunctionOfTheStep(t *testing.T) {
	core.T = t
	cfg := DefaultConfig(1)
	n := NewNode(cfg, "x", NewDisks(), 0, nil)
	n.InitChain()
	s := &Sim{cfg: cfg, node: n}
	st := &Step{Op: "tx", Kind: "node_stake", From: 403, Amount: 16000000, Chains: []string{"0001", "0021"}, Output: 403, Delegators: [][2]int{{4, 30}, {203, 13}, {100, 13}}, SignKey: 403, Sig: "ok", Entropy: 1038}
	first := s.buildTx(st)
	if first.BuildErr != "" {
		t.Fatal(first.BuildErr)
	}
	for i := 0; i < 50; i++ {
		r := s.buildTx(st)
		if !bytes.Equal(r.Bytes, first.Bytes) {
			t.Fatalf("differ at try %d\n%x\n%x\n", i, first.Bytes, r.Bytes)
		}
	}
}
