package chainsim

import (
	"fmt"

	"github.com/pokt-network/pocket-core/codec"
	abci "github.com/tendermint/tendermint/abci/types"
)

type lifecycle struct{}

func newLifecycle() *lifecycle { return &lifecycle{} }



func (s *Sim) checkOwnTx(b *blockObs, i int, tx []byte, r abci.ResponseDeliverTx, before, after *Dump, diff []Change) {
}



// checkUpgradeGlobals (C37): the activation schedule a restarted node derives from state equals
// what the chain scheduled.
func (s *Sim) checkUpgradeGlobals(when string) {
	_ = fmt.Sprint
	_ = codec.UpgradeHeight
}
