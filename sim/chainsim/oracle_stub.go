package chainsim

import (
	"fmt"
	"sort"
	"strconv"
	"strings"

	"github.com/pokt-network/pocket-core/app"
	govTypes "github.com/pokt-network/pocket-core/x/gov/types"

	"github.com/pokt-network/pocket-core/codec"
)

type lifecycle struct{}

func newLifecycle() *lifecycle { return &lifecycle{} }

// ---------------------------------------------------------------- C37 feature upgrades

// parseFeatures returns the schedule a feature list denotes (later entries win), whether every
// entry is well formed and whether a key occurs twice.
func parseFeatures(list []string) (map[string]int64, bool, bool) {
	m := map[string]int64{}
	ok := true
	dup := false
	for _, f := range list {
		kv := strings.Split(f, ":")
		if len(kv) != 2 {
			ok = false
			continue
		}
		h, err := strconv.ParseInt(kv[1], 10, 64)
		if err != nil {
			ok = false
			continue
		}
		if _, seen := m[kv[0]]; seen {
			dup = true
		}
		m[kv[0]] = h
	}
	return m, ok, dup
}

func mapsEqual(a, b map[string]int64) bool {
	if len(a) != len(b) {
		return false
	}
	for k, v := range a {
		if w, ok := b[k]; !ok || w != v {
			return false
		}
	}
	return true
}

// schedule returns the model schedule (lazily initialised from the genesis configuration).
func (s *Sim) schedule() map[string]int64 {
	if s.sched == nil {
		s.sched = map[string]int64{}
		for k, v := range s.cfg.Features {
			s.sched[k] = v
		}
	}
	return s.sched
}

// checkUpgradeTx judges an upgrade transaction signed by the owner.
func (s *Sim) checkUpgradeTx(t *txCtx) {
	rec := t.rec
	var stored govTypes.Upgrade
	raw, ok := t.va.Params["gov/upgrade"]
	if !ok || govTypes.ModuleCdc.UnmarshalJSON([]byte(raw), &stored) != nil {
		s.violate("C37", "stored-upgrade-unreadable", "stored", fmt.Sprintf("height %d: gov/upgrade is %q after upgrade id %d", t.h, raw, rec.Step.ID))
		return
	}
	want := map[string]int64{}
	for k, v := range s.schedule() {
		want[k] = v
	}
	named, wellFormed, _ := parseFeatures(rec.Step.Upgrade.Features)
	if t.res.Code == 0 && wellFormed {
		for k, v := range named {
			want[k] = v
		}
		s.sched = want
		s.res.Probe("feature_upgrade_accepted")
	}
	got, syntaxOK, dup := parseFeatures(stored.Features)
	if !syntaxOK || dup || !sort.StringsAreSorted(stored.Features) {
		s.violate("C37", "stored-feature-list-not-canonical", "stored", fmt.Sprintf("height %d: stored feature list %v (duplicates or unsorted)", t.h, stored.Features))
	}
	if !mapsEqual(got, want) {
		s.violate("C37", "stored-schedule-vs-scheduled", "stored", fmt.Sprintf("height %d: after upgrade id %d (code %d) naming %v the stored schedule is %v, scheduled so far %v", t.h, rec.Step.ID, t.res.Code, rec.Step.Upgrade.Features, stored.Features, want))
	}
	s.checkUpgradeGlobals(fmt.Sprintf("after upgrade id %d", rec.Step.ID))
	s.res.Case(fmt.Sprintf("upgrade/n=%d/code=%v", len(named), t.res.Code == 0))
}

// checkUpgradeGlobals (C37): the activation schedule the running (or restarted) node works with
// equals what the chain scheduled, and the activation predicates switch exactly at the heights.
func (s *Sim) checkUpgradeGlobals(when string) {
	want := s.schedule()
	if !mapsEqual(codec.UpgradeFeatureMap, want) {
		s.violate("C37", "node-schedule-vs-scheduled", strings.SplitN(when, " ", 2)[0], fmt.Sprintf("%s at height %d the node's activation schedule is %v, scheduled %v", when, s.drv.Height, codec.UpgradeFeatureMap, want))
		return
	}
	cdc := app.Codec()
	for k, h := range want {
		for _, probe := range []int64{h - 1, h, h + 1} {
			if probe < 1 {
				continue
			}
			if got := cdc.IsAfterNamedFeatureActivationHeight(probe, k); got != (probe >= h) {
				s.violate("C37", "activation-predicate", "predicate", fmt.Sprintf("%s: feature %s scheduled at %d reads active=%v at height %d", when, k, h, got, probe))
			}
		}
	}
}
