package chainsim

// Invariants on every committed state: C17 (supply), C18 (canonical, non-negative balances),
// C19/C20 (staking pools), C21 (node indexes), C22 (validator updates).

import (
	"fmt"
	"sort"
	"time"

	sdk "github.com/pokt-network/pocket-core/types"
	appsTypes "github.com/pokt-network/pocket-core/x/apps/types"
	nodesTypes "github.com/pokt-network/pocket-core/x/nodes/types"
)

func (s *Sim) checkCommitted(b *blockObs, v *View, d *Dump) {
	h := v.Height
	// C24 (own record, kept from the first block on): since when each node record and each
	// waiting-to-unstake entry exists
	if s.nodeSince == nil {
		s.nodeSince, s.waitingSince = map[string]int64{}, map[string]int64{}
	}
	for a := range s.nodeSince {
		if _, ok := v.Validators[a]; !ok {
			delete(s.nodeSince, a)
		}
	}
	for a := range v.Validators {
		if _, ok := s.nodeSince[a]; !ok {
			s.nodeSince[a] = h
		}
	}
	for a := range s.waitingSince {
		if !v.Waiting[a] {
			delete(s.waitingSince, a)
		}
	}
	for a := range v.Waiting {
		if _, ok := s.waitingSince[a]; !ok {
			s.waitingSince[a] = h
		}
	}
	if h <= s.cfg.UpgradeHeight {
		return
	}
	for _, e := range v.Errors {
		s.violate(s.prop, "undecodable-state", "view", fmt.Sprintf("height %d: %s", h, e))
	}
	// C17: supply = sum of all balances
	sum := sdk.ZeroInt()
	for _, a := range v.Accounts {
		sum = sum.Add(a.Upokt)
		// C18: canonical coin sets, never negative
		if !a.Coins.IsValid() && len(a.Coins) > 0 {
			s.violate("C18", "non-canonical-coins", "account", fmt.Sprintf("height %d: account %s holds %v", h, a.Addr, a.Coins))
		}
		if a.Upokt.IsNegative() {
			s.violate("C18", "negative-balance", "account", fmt.Sprintf("height %d: account %s holds %s", h, a.Addr, a.Upokt))
		}
	}
	if !sum.Equal(v.SupplyAmt) {
		s.violate("C17", "supply-vs-balances", "committed", fmt.Sprintf("height %d: recorded supply %s, sum of balances %s (difference %s)", h, v.SupplyAmt, sum, v.SupplyAmt.Sub(sum)))
	}
	// C32: a claim that was not proved before its expiration height is gone from that height on
	for _, k := range sortedAddrs(v.Claims) {
		c := v.Claims[k]
		if c.ExpirationHeight > 0 && c.ExpirationHeight <= h {
			s.violate("C32", "expired-claim-still-stored", "committed", fmt.Sprintf("height %d: the claim of %s for session height %d expired at height %d and is still pending", h, c.FromAddress, c.SessionHeader.SessionBlockHeight, c.ExpirationHeight))
			break
		}
		if c.ExpirationHeight > 0 && c.ExpirationHeight <= h+2 {
			s.res.Probe("claim_about_to_expire")
		}
	}
	// C19: node pool = staked tokens of staked|unstaking nodes
	nodeSum := sdk.ZeroInt()
	for _, val := range v.Validators {
		if val.Status == sdk.Staked || val.Status == sdk.Unstaking {
			nodeSum = nodeSum.Add(val.StakedTokens)
		}
	}
	if pool := v.ModuleBalance(nodesTypes.StakedPoolName); !pool.Equal(nodeSum) {
		subject := "committed"
		if sent, ok := s.sentToModule[nodesTypes.StakedPoolName]; ok && pool.Equal(nodeSum.Add(sent)) {
			subject = "pool-exceeds-stakes-by-what-was-sent-to-its-address"
		}
		s.violate("C19", "node-pool-vs-stakes", subject, fmt.Sprintf("height %d: node staking pool holds %s, staked+unstaking nodes hold %s (sent to the pool's address by plain sends: %v)", h, pool, nodeSum, s.sentToModule[nodesTypes.StakedPoolName]))
	}
	// C20
	appSum := sdk.ZeroInt()
	for _, a := range v.Apps {
		if a.Status == sdk.Staked || a.Status == sdk.Unstaking {
			appSum = appSum.Add(a.StakedTokens)
		}
	}
	if pool := v.ModuleBalance(appsTypes.StakedPoolName); !pool.Equal(appSum) {
		subject := "committed"
		if sent, ok := s.sentToModule[appsTypes.StakedPoolName]; ok && pool.Equal(appSum.Add(sent)) {
			subject = "pool-exceeds-stakes-by-what-was-sent-to-its-address"
		}
		s.violate("C20", "app-pool-vs-stakes", subject, fmt.Sprintf("height %d: application staking pool holds %s, staked+unstaking applications hold %s (sent to the pool's address by plain sends: %v)", h, pool, appSum, s.sentToModule[appsTypes.StakedPoolName]))
	}
	s.checkNodeIndexes(v, d)
	s.res.Case(fmt.Sprintf("committed/nodes=%d/apps=%d/jailed=%d/unstaking=%d", len(v.Validators), len(v.Apps), countVals(v, func(x nodesTypes.Validator) bool { return x.Jailed }), countVals(v, func(x nodesTypes.Validator) bool { return x.Status == sdk.Unstaking })))
}

func countVals(v *View, f func(nodesTypes.Validator) bool) int {
	n := 0
	for _, x := range v.Validators {
		if f(x) {
			n++
		}
	}
	return n
}

// C21: the three node indexes agree with the records, both ways.
func (s *Sim) checkNodeIndexes(v *View, d *Dump) {
	h := v.Height
	ix := d.ParseNodeIndexes()
	for _, e := range ix.Errors {
		s.violate("C21", "index-entry-malformed", "index", fmt.Sprintf("height %d: %s", h, e))
	}
	for _, a := range ix.DupPower {
		s.violate("C21", "staked-index-duplicate", "by-power", fmt.Sprintf("height %d: node %s is listed twice in the staked-by-power index", h, a))
	}
	for addr, val := range v.Validators {
		power := val.StakedTokens.Quo(sdk.NewInt(1000000)).Int64()
		inPower, listed := ix.ByPower[addr]
		want := val.Status == sdk.Staked && !val.Jailed
		if want && !listed {
			s.violate("C21", "staked-index-missing", "by-power", fmt.Sprintf("height %d: staked unjailed node %s (tokens %s) is not in the staked-by-power index", h, addr, val.StakedTokens))
		} else if want && inPower != power {
			s.violate("C21", "staked-index-stale-power", "by-power", fmt.Sprintf("height %d: node %s is indexed under power %d, its stake %s gives %d", h, addr, inPower, val.StakedTokens, power))
		} else if !want && listed {
			s.violate("C21", "staked-index-stray", "by-power", fmt.Sprintf("height %d: node %s (status %d jailed %v) is in the staked-by-power index", h, addr, val.Status, val.Jailed))
		}
		// per-chain index
		for _, c := range val.Chains {
			has := contains(ix.ByChain[c], addr)
			if val.Status == sdk.Staked && !has {
				s.violate("C21", "chain-index-missing", "by-chain", fmt.Sprintf("height %d: staked node %s declares chain %s but is not in its index", h, addr, c))
			}
		}
		// unstaking queue
		t, queued := ix.Unstaking[addr]
		if val.Status == sdk.Unstaking {
			wantT := val.UnstakingCompletionTime.UTC().Format(time.RFC3339Nano)
			if !queued {
				s.violate("C21", "unstaking-queue-missing", "unstaking", fmt.Sprintf("height %d: unstaking node %s (due %s) is not in the unstaking queue", h, addr, wantT))
			} else if t != wantT {
				s.violate("C21", "unstaking-queue-wrong-time", "unstaking", fmt.Sprintf("height %d: unstaking node %s is queued under %s, its completion time is %s", h, addr, t, wantT))
			}
		} else if queued {
			s.violate("C21", "unstaking-queue-stray", "unstaking", fmt.Sprintf("height %d: node %s (status %d) is in the unstaking queue", h, addr, val.Status))
		}
	}
	for addr := range ix.ByPower {
		if _, ok := v.Validators[addr]; !ok {
			s.violate("C21", "staked-index-dangling", "by-power", fmt.Sprintf("height %d: staked-by-power index lists %s, no such node record", h, addr))
		}
	}
	for c, list := range ix.ByChain {
		for _, addr := range list {
			val, ok := v.Validators[addr]
			if !ok {
				s.violate("C21", "chain-index-dangling", "by-chain", fmt.Sprintf("height %d: chain %s index lists %s, no such node record", h, c, addr))
			} else if val.Status != sdk.Staked || !contains(val.Chains, c) {
				s.violate("C21", "chain-index-stray", "by-chain", fmt.Sprintf("height %d: chain %s index lists node %s (status %d, chains %v)", h, c, addr, val.Status, val.Chains))
			}
		}
	}
	for addr := range ix.Unstaking {
		if _, ok := v.Validators[addr]; !ok {
			s.violate("C21", "unstaking-queue-dangling", "unstaking", fmt.Sprintf("height %d: unstaking queue lists %s, no such node record", h, addr))
		}
	}
	// what the keeper's own reader of the per-chain index returns (the list sessions are drawn
	// from) for every chain a node declares: exactly the staked nodes that declare it
	if s.prop == "C21" {
		chains := map[string]bool{}
		for _, val := range v.Validators {
			for _, c := range val.Chains {
				chains[c] = true
			}
		}
		if ctx, err := s.node.App.NewContext(h); err == nil {
			k := s.node.App.VerifNodesKeeper()
			for _, c := range sortedAddrs(chains) {
				got, _ := k.GetValidatorsByChain(ctx, c)
				want := map[string]bool{}
				for addr, val := range v.Validators {
					if val.Status == sdk.Staked && contains(val.Chains, c) {
						want[addr] = true
					}
				}
				bad := ""
				seen := map[string]bool{}
				for _, a := range got {
					as := a.String()
					if !want[as] && bad == "" {
						bad = fmt.Sprintf("lists %s (%d bytes), which is no staked node declaring that chain", as, len(a))
					}
					seen[as] = true
				}
				for a := range want {
					if !seen[a] && bad == "" {
						bad = fmt.Sprintf("does not list staked node %s", a)
					}
				}
				if bad != "" {
					s.violate("C21", "chain-index-reader-vs-nodes", "by-chain", fmt.Sprintf("height %d: the nodes of chain %s as the keeper reads them (%d entries): the list %s", h, c, len(got), bad))
				}
				s.res.Probe("chain_index_read_through_keeper")
			}
		}
	}
}

func contains(l []string, x string) bool {
	for _, y := range l {
		if y == x {
			return true
		}
	}
	return false
}

// C22: the cumulative result of all reported updates equals a valid top-N of eligible nodes.
func (s *Sim) checkValidatorUpdates(b *blockObs, res *BlockResult) {
	v := s.committedView
	if v == nil {
		return
	}
	h := v.Height
	maxVals, ok := v.ParamInt("pos/MaxValidators")
	if !ok {
		return
	}
	type elig struct {
		addr  string
		pub   string
		power int64
	}
	var eligible []elig
	byPub := map[string]elig{}
	for addr, val := range v.Validators {
		p := val.StakedTokens.Quo(sdk.NewInt(1000000)).Int64()
		if val.Status == sdk.Staked && !val.Jailed && p > 0 {
			e := elig{addr, fmt.Sprintf("%x", val.PublicKey.RawBytes()), p}
			eligible = append(eligible, e)
			byPub[e.pub] = e
		}
	}
	sort.Slice(eligible, func(i, j int) bool { return eligible[i].power > eligible[j].power })
	wantN := int(maxVals)
	if len(eligible) < wantN {
		wantN = len(eligible)
	}
	set := s.drv.Cumulative
	if len(set) != wantN {
		s.violate("C22", "validator-set-size", "size", fmt.Sprintf("height %d: consensus set after applying all updates has %d members, eligible nodes %d, MaxValidators %d", h, len(set), len(eligible), maxVals))
		return
	}
	minIn := int64(1 << 62)
	for pub, e := range set {
		el, ok := byPub[pub]
		if !ok {
			s.violate("C22", "validator-not-eligible", "member", fmt.Sprintf("height %d: consensus set contains key %s (power %d) which is not a staked, unjailed node with power", h, pub, e.Power))
			return
		}
		if el.power != e.Power {
			s.violate("C22", "validator-power-stale", "member", fmt.Sprintf("height %d: node %s is in the consensus set with power %d, its current power is %d", h, el.addr, e.Power, el.power))
			return
		}
		if e.Power < minIn {
			minIn = e.Power
		}
	}
	for _, el := range eligible {
		if _, in := set[el.pub]; !in && el.power > minIn {
			s.violate("C22", "validator-not-top", "cut", fmt.Sprintf("height %d: eligible node %s with power %d is outside the consensus set whose weakest member has %d", h, el.addr, el.power, minIn))
			return
		}
	}
	if len(res.End.ValidatorUpdates) > 0 {
		s.res.Probe("validator_updates_nonempty")
		s.res.Case(fmt.Sprintf("valupdate/n=%d/set=%d/eligible=%d", len(res.End.ValidatorUpdates), len(set), len(eligible)))
	}
	if int(maxVals) < len(eligible) {
		s.res.Probe("max_validators_below_eligible")
	}
}

type nodesVal = nodesTypes.Validator

func countApps(v *View, st sdk.StakeStatus) int {
	n := 0
	for _, a := range v.Apps {
		if a.Status == st {
			n++
		}
	}
	return n
}
