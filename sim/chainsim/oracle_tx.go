package chainsim

// Per-transaction oracles on the DeliverTx diff: C14 (authentication), C15 (fee), C16 (at most
// once), C18 (send), C36 (gov). Written in the direction the properties state.

import (
	"fmt"
	"sort"
	"strings"
	"time"

	"github.com/pokt-network/pocket-core/codec"
	sdk "github.com/pokt-network/pocket-core/types"
	"github.com/pokt-network/pocket-core/x/auth"
	authTypes "github.com/pokt-network/pocket-core/x/auth/types"
	govTypes "github.com/pokt-network/pocket-core/x/gov/types"
	abci "github.com/tendermint/tendermint/abci/types"
)

const baseFee = 10000

func featureOn(key string, h int64) bool {
	x, ok := codec.UpgradeFeatureMap[key]
	return ok && x != 0 && h >= x
}

func acctKey(addrHex string) string {
	a, _ := sdk.AddressFromHex(addrHex)
	return string(authTypes.AddressStoreKey(a))
}

// txCtx carries everything the per-tx oracles look at.
type txCtx struct {
	h         int64
	rec       *TxRecord
	res       abci.ResponseDeliverTx
	before    *Dump
	after     *Dump
	vb, va    *View
	diff      []Change
	resub     bool
	enc       string
	blockTime time.Time
}

func (t *txCtx) delta(addr string) sdk.BigInt { return t.va.Balance(addr).Sub(t.vb.Balance(addr)) }

// accountChanges lists hex addresses whose account record changed.
func (t *txCtx) accountChanges() []string {
	var out []string
	for _, c := range t.diff {
		if c.Store == auth.StoreKey && c.Key[0] == authTypes.AddressStoreKeyPrefix[0] {
			out = append(out, sdk.Address(c.Key[1:]).String())
		}
	}
	return out
}

func (t *txCtx) nonAccountChanges() []Change {
	var out []Change
	for _, c := range t.diff {
		if c.Store == auth.StoreKey && c.Key[0] == authTypes.AddressStoreKeyPrefix[0] {
			continue
		}
		out = append(out, c)
	}
	return out
}

// allowedSigner: is the key that really signed one the property lets sign this message?
func (s *Sim) allowedSigner(t *txCtx) bool {
	rec := t.rec
	if rec.SignAddr == "" {
		return false
	}
	for _, d := range rec.Declared {
		if d != "" && d == rec.SignAddr {
			return true
		}
	}
	switch rec.Step.Kind {
	case "node_stake":
		// documented output-address case: the node's current output address may sign an edit
		if featureOn(codec.NonCustodialUpdateKey, t.h) && featureOn(codec.OutputAddressEditKey, t.h) {
			if v, ok := t.vb.Validators[s.key(rec.Step.From).String()]; ok && v.OutputAddress != nil && v.OutputAddress.String() == rec.SignAddr {
				return true
			}
		}
	case "app_stake":
		// documented application-transfer case: a staked application signs over a new key
		if featureOn(codec.AppTransferKey, t.h) && rec.Step.Amount == 0 && len(rec.Step.Chains) == 0 {
			if _, ok := t.vb.Apps[rec.SignAddr]; ok && rec.SignAddr != s.key(rec.Step.From).String() {
				return true
			}
		}
	}
	return false
}

func (s *Sim) requiredFee(v *View, rec *TxRecord) int64 {
	mult := int64(1)
	if raw, ok := v.Params["auth/FeeMultipliers"]; ok {
		var fm authTypes.FeeMultipliers
		if err := authTypes.ModuleCdc.UnmarshalJSON([]byte(raw), &fm); err == nil {
			mult = fm.Default
			for _, f := range fm.FeeMultis {
				if f.Key == rec.Msg.Type() {
					mult = f.Multiplier
				}
			}
		}
	}
	return baseFee * mult
}

func (s *Sim) checkTx(b *blockObs, i int, tx []byte, r abci.ResponseDeliverTx, before, after *Dump) {
	p := b.pend[i]
	diff := Diff(before, after)
	if len(diff) > 0 {
		s.effective[fmt.Sprintf("%d/%d", b.spec.Height, i)] = true
	}
	var rec *TxRecord
	enc := "original"
	if p.id > 0 {
		rec = s.txs[p.id]
	} else if p.id < 0 {
		rec = s.txs[-p.id]
		enc = "resubmitted"
		if string(tx) != string(rec.Canon) {
			enc = "reencoded"
		}
	}
	if rec == nil {
		s.checkOwnTx(b, i, tx, r, before, after, diff)
		return
	}
	t := &txCtx{h: b.spec.Height, blockTime: b.spec.Time, rec: rec, res: r, before: before, after: after, diff: diff, resub: p.id < 0, enc: enc}
	t.vb, t.va = before.View(), after.View()
	changed := len(diff) > 0

	// ---- C16: a signed transaction changes state at most once
	if changed && rec.Delivered > 0 && rec.lastEffectiveAt == t.h && !featureOn(codec.TxCacheEnhancementKey, t.h) {
		// the same bytes twice in one block before the in-block duplicate cache is active: the era
		// before that feature, which the property does not describe (the index, the only other
		// duplicate check, is written after the block)
		s.res.Probe("in_block_duplicate_before_the_duplicate_cache_feature")
		rec.lastEffectiveAt = t.h
		return
	}
	if changed {
		rec.Delivered++
		rec.lastEffectiveAt = t.h
		rec.Encs = append(rec.Encs, enc)
		if rec.Delivered > 1 {
			subject := "identical-bytes"
			for _, e := range rec.Encs {
				if e == "reencoded" {
					subject = "reencoded"
				}
			}
			s.violate("C16", "effective-twice", subject, fmt.Sprintf("height %d: tx id %d (%s) changed state for the %d. time; effective deliveries so far: %v (this one: code %d/%s): %s", t.h, rec.Step.ID, rec.Step.Kind, rec.Delivered, rec.Encs, r.Code, r.Codespace, diff[0]))
		}
		s.res.Case(fmt.Sprintf("delivered/%s/%s/code=%v", rec.Step.Kind, enc, r.Code == 0))
	}
	if changed {
		s.checkStatusMoves(t)
	}
	if changed && rec.Step.Kind == "send" && rec.Step.ToMod != "" {
		// what a staking pool was sent directly is no stake of anybody (C19/C20 keep count); counted
		// for every delivery that took effect, re-submitted copies included
		if got := t.delta(s.sendTo(&rec.Step).String()); got.IsPositive() {
			if s.sentToModule == nil {
				s.sentToModule = map[string]sdk.BigInt{}
			}
			prev, ok := s.sentToModule[rec.Step.ToMod]
			if !ok {
				prev = sdk.ZeroInt()
			}
			s.sentToModule[rec.Step.ToMod] = prev.Add(got)
			s.res.Probe("send_to_module_account_accepted")
		}
	}
	if t.resub {
		// a resubmitted copy that took effect (the recorded C16 finding) still moves the model
		if changed && rec.Step.Kind == "gov_upgrade" && r.Code == 0 && s.allowedSigner(t) && s.aclOwner(t.vb, "gov/upgrade") == rec.SignAddr {
			s.checkUpgradeTx(t)
		}
		s.res.Probe("resubmission_delivered_" + enc)
		return // the remaining oracles judge first deliveries
	}

	authentic := s.allowedSigner(t)
	fee := rec.Step.Fee
	feeAddr := ModuleAddr(authTypes.FeeCollectorName)

	// ---- C14: unauthenticated transactions change nothing
	if !authentic {
		if changed {
			s.violate("C14", "unauthenticated-tx-changed-state", rec.Step.Kind+"/"+sigLabel(rec), fmt.Sprintf("height %d: tx id %d (%s) signed by key %d (sig=%s, declared signers %v) changed state: %s (+%d)", t.h, rec.Step.ID, rec.Step.Kind, rec.Step.SignKey, rec.Step.Sig, rec.Declared, diff[0], len(diff)-1))
		}
		s.res.Probe("unauthenticated_tx_" + sigLabel(rec))
		s.res.Case(fmt.Sprintf("unauth/%s/%s", rec.Step.Kind, sigLabel(rec)))
		return
	}

	// ---- C15: fee
	req := s.requiredFee(t.vb, rec)
	signerBal := t.vb.Balance(rec.SignAddr)
	isProof := rec.Step.Kind == "proof"
	if changed {
		fd := t.delta(feeAddr)
		if rec.Step.Kind == "gov_dao" && rec.Step.Action == govTypes.DAOTransferString && rec.Step.ToMod == authTypes.FeeCollectorName {
			// the message itself pays the fee collector: what left the DAO is not part of the fee
			fd = fd.Add(t.delta(ModuleAddr(govTypes.DAOAccountName)))
		}
		if !isProof && !fd.Equal(sdk.NewInt(fee)) {
			s.violate("C15", "fee-collector-delta", rec.Step.Kind, fmt.Sprintf("height %d: tx id %d (%s, code %d) declared fee %d, fee collector changed by %s", t.h, rec.Step.ID, rec.Step.Kind, r.Code, fee, fd))
		}
		if fee < req {
			s.violate("C15", "fee-below-required-accepted", rec.Step.Kind, fmt.Sprintf("height %d: tx id %d (%s) changed state with fee %d, required %d", t.h, rec.Step.ID, rec.Step.Kind, fee, req))
		}
		if !s.signerTouchedByMsg(t) {
			if sd := t.delta(rec.SignAddr); !sd.Equal(sdk.NewInt(-fee)) {
				s.violate("C15", "signer-delta", rec.Step.Kind, fmt.Sprintf("height %d: tx id %d (%s, code %d) declared fee %d, signer %s changed by %s", t.h, rec.Step.ID, rec.Step.Kind, r.Code, fee, rec.SignAddr, sd))
			}
		}
	} else if fee >= req && signerBal.GTE(sdk.NewInt(fee)) && s.plainlyValid(t) {
		// authenticated, sufficient fee and balance, first submission: the fee must be taken
		s.violate("C15", "authenticated-tx-paid-nothing", rec.Step.Kind, fmt.Sprintf("height %d: tx id %d (%s) authenticated with fee %d (balance %s) changed nothing (code %d/%s log %q)", t.h, rec.Step.ID, rec.Step.Kind, fee, signerBal, r.Code, r.Codespace, trimLog(r.Log)))
	}
	if fee < req {
		s.res.Probe("fee_below_required")
	} else if fee == req {
		s.res.Probe("fee_exactly_required")
	}
	if signerBal.LT(sdk.NewInt(fee)) {
		s.res.Probe("balance_below_fee")
	}

	switch rec.Step.Kind {
	case "send":
		s.checkSend(t, changed)
	case "gov_param", "gov_dao", "gov_upgrade":
		s.checkGov(t, changed)
	case "node_stake", "node_unstake", "node_unjail":
		s.checkNodeTx(t, changed)
	case "app_stake", "app_unstake", "app_unjail":
		s.checkAppTx(t, changed)
	}
}

func trimLog(l string) string {
	if len(l) > 160 {
		return l[:160]
	}
	return l
}

func sigLabel(rec *TxRecord) string {
	if rec.Step.Sig != "ok" && rec.Step.Sig != "" {
		return rec.Step.Sig
	}
	return "wrong-key"
}

// signerTouchedByMsg: may the message itself move the signer's funds?
func (s *Sim) signerTouchedByMsg(t *txCtx) bool {
	switch t.rec.Step.Kind {
	case "gov_param", "gov_upgrade", "node_unstake", "node_unjail", "app_unstake", "app_unjail":
		return false
	case "gov_dao":
		return t.rec.Step.Action == govTypes.DAOTransferString && s.key(t.rec.Step.To).String() == t.rec.SignAddr
	}
	return true
}

// plainlyValid: nothing but authentication, fee and balance can make the ante handler refuse it.
func (s *Sim) plainlyValid(t *txCtx) bool {
	rec := t.rec
	if len(rec.Step.Memo) > 50 || rec.Delivered > 0 {
		return false
	}
	if _, ok := t.vb.Accounts[rec.SignAddr]; !ok {
		return false
	}
	// message-level ValidateBasic must pass: only generated-valid shapes are counted
	if rec.Msg.ValidateBasic() != nil {
		return false
	}
	return true
}

// ---------------------------------------------------------------- C18 send

func (s *Sim) checkSend(t *txCtx, changed bool) {
	if !changed {
		return
	}
	rec := t.rec
	from, to := s.key(rec.Step.From).String(), s.sendTo(&rec.Step).String()
	feeAddr := ModuleAddr(authTypes.FeeCollectorName)
	fee, amt := sdk.NewInt(rec.Step.Fee), sdk.NewInt(rec.Step.Amount)
	if nc := t.nonAccountChanges(); len(nc) > 0 {
		s.violate("C18", "send-touches-other-state", "non-account", fmt.Sprintf("height %d: send id %d changed %s", t.h, rec.Step.ID, nc[0]))
	}
	for _, a := range t.accountChanges() {
		if a != from && a != to && a != feeAddr && a != rec.SignAddr {
			s.violate("C18", "send-touches-third-account", "third-party", fmt.Sprintf("height %d: send id %d from %s to %s changed account %s by %s", t.h, rec.Step.ID, from, to, a, t.delta(a)))
		}
	}
	canCover := t.vb.Balance(from).Sub(fee).GTE(amt)
	if from != rec.SignAddr {
		canCover = t.vb.Balance(from).GTE(amt)
	}
	moved := sdk.ZeroInt()
	if from == to {
		// self-send nets to the fee only
		if d := t.delta(from); !d.Equal(fee.Neg()) {
			s.violate("C18", "self-send-delta", "self", fmt.Sprintf("height %d: self-send id %d of %s with fee %s changed the account by %s", t.h, rec.Step.ID, amt, fee, d))
		}
		return
	}
	moved = t.delta(to)
	fromWant := moved.Neg()
	if from == rec.SignAddr {
		fromWant = fromWant.Sub(fee)
	}
	if d := t.delta(from); !d.Equal(fromWant) {
		s.violate("C18", "sender-delta", "sender", fmt.Sprintf("height %d: send id %d amount %s fee %s (code %d): sender changed by %s, recipient by %s", t.h, rec.Step.ID, amt, fee, t.res.Code, d, moved))
	}
	if !moved.IsZero() && !moved.Equal(amt) {
		s.violate("C18", "recipient-delta", "recipient", fmt.Sprintf("height %d: send id %d amount %s: recipient changed by %s", t.h, rec.Step.ID, amt, moved))
	}
	if !canCover && !moved.IsZero() {
		s.violate("C18", "uncovered-send-moved-funds", "uncovered", fmt.Sprintf("height %d: send id %d amount %s from balance %s (fee %s) moved %s", t.h, rec.Step.ID, amt, t.vb.Balance(from), fee, moved))
	}
	if canCover && moved.IsZero() && from == rec.SignAddr && amt.IsPositive() {
		s.violate("C18", "covered-send-moved-nothing", "covered", fmt.Sprintf("height %d: send id %d amount %s from balance %s (fee %s) moved nothing (code %d log %q)", t.h, rec.Step.ID, amt, t.vb.Balance(from), fee, t.res.Code, trimLog(t.res.Log)))
	}
	if (t.res.Code == 0) != (!moved.IsZero()) && amt.IsPositive() {
		s.violate("C18", "result-code-vs-effect", "code", fmt.Sprintf("height %d: send id %d returned code %d but moved %s", t.h, rec.Step.ID, t.res.Code, moved))
	}
	if !canCover {
		s.res.Probe("send_uncovered")
	}
	if _, existed := t.vb.Accounts[to]; !existed {
		s.res.Probe("send_to_new_account")
	}
}

// ---------------------------------------------------------------- C36 gov

func (s *Sim) aclOwner(v *View, key string) string {
	raw, ok := v.Params["gov/acl"]
	if !ok {
		return ""
	}
	var acl govTypes.ACL
	if err := govTypes.ModuleCdc.UnmarshalJSON([]byte(raw), &acl); err != nil {
		return ""
	}
	if o := acl.GetOwner(key); o != nil {
		return o.String()
	}
	return ""
}

func (s *Sim) daoOwner(v *View) string {
	raw, ok := v.Params["gov/daoOwner"]
	if !ok {
		return ""
	}
	var a sdk.Address
	if err := govTypes.ModuleCdc.UnmarshalJSON([]byte(raw), &a); err != nil {
		return ""
	}
	return a.String()
}

func (s *Sim) checkGov(t *txCtx, changed bool) {
	if !changed {
		return
	}
	rec := t.rec
	feeAddr := ModuleAddr(authTypes.FeeCollectorName)
	daoAddr := ModuleAddr(govTypes.DAOAccountName)
	signer := rec.SignAddr
	fee := sdk.NewInt(rec.Step.Fee)
	feeOnly := func() bool {
		if len(t.nonAccountChanges()) > 0 {
			return false
		}
		for _, a := range t.accountChanges() {
			if a != signer && a != feeAddr {
				return false
			}
		}
		return t.delta(signer).Equal(fee.Neg())
	}
	switch rec.Step.Kind {
	case "gov_param", "gov_upgrade":
		aclKey := rec.Step.ParamKey
		if rec.Step.Kind == "gov_upgrade" {
			aclKey = "gov/upgrade"
		}
		owner := s.aclOwner(t.vb, aclKey)
		isOwner := owner != "" && owner == signer && s.key(rec.Step.From).String() == signer
		if !isOwner {
			if !feeOnly() {
				s.violate("C36", "non-owner-changed-state", rec.Step.Kind, fmt.Sprintf("height %d: tx id %d by %s (owner of %s is %s) changed more than the fee: %v", t.h, rec.Step.ID, signer, aclKey, owner, firstNonFee(t, signer, feeAddr)))
			}
			s.res.Probe("gov_by_non_owner")
			return
		}
		// owner: exactly that parameter
		for _, c := range t.nonAccountChanges() {
			if c.Store != sdk.ParamsKey.Name() || string(c.Key) != aclKey {
				s.violate("C36", "owner-change-touches-other-state", rec.Step.Kind, fmt.Sprintf("height %d: tx id %d changing %s also changed %s", t.h, rec.Step.ID, aclKey, c))
			}
		}
		for _, a := range t.accountChanges() {
			if a != signer && a != feeAddr {
				s.violate("C36", "owner-change-moves-funds", rec.Step.Kind, fmt.Sprintf("height %d: tx id %d changing %s changed account %s", t.h, rec.Step.ID, aclKey, a))
			}
		}
		s.res.Probe("gov_by_owner")
		if rec.Step.Kind == "gov_upgrade" {
			s.checkUpgradeTx(t)
		}
		if rec.Step.Kind == "gov_param" && aclKey == "gov/upgrade" {
			// (C37) the upgrade record written through the parameter-change message
			s.res.Probe("upgrade_record_written_by_parameter_change")
			var stored govTypes.Upgrade
			if raw, ok := t.va.Params["gov/upgrade"]; ok && govTypes.ModuleCdc.UnmarshalJSON([]byte(raw), &stored) == nil {
				got, syntaxOK, dup := parseFeatures(stored.Features)
				if !syntaxOK || dup || !sort.StringsAreSorted(stored.Features) {
					s.violate("C37", "stored-feature-list-not-canonical", "stored-by-parameter-change", fmt.Sprintf("height %d: stored feature list %v (duplicates or unsorted)", t.h, stored.Features))
				} else if !mapsEqual(got, s.schedule()) {
					s.violate("C37", "stored-schedule-vs-scheduled", "stored-by-parameter-change", fmt.Sprintf("height %d: a parameter change of gov/upgrade (tx id %d, code %d) left the stored schedule at %v; scheduled so far %v", t.h, rec.Step.ID, t.res.Code, stored.Features, s.schedule()))
				}
			}
		}
	case "gov_dao":
		owner := s.daoOwner(t.vb)
		isOwner := owner != "" && owner == signer && s.key(rec.Step.From).String() == signer
		amt := sdk.NewInt(rec.Step.Amount)
		to := s.key(rec.Step.To).String()
		if rec.Step.ToMod != "" {
			to = ModuleAddr(rec.Step.ToMod)
		}
		daoDelta := t.delta(daoAddr)
		if !isOwner {
			if !feeOnly() {
				s.violate("C36", "non-owner-moved-dao-funds", "gov_dao", fmt.Sprintf("height %d: tx id %d by %s (DAO owner %s) changed more than the fee; DAO account changed by %s", t.h, rec.Step.ID, signer, owner, daoDelta))
			}
			s.res.Probe("dao_by_non_owner")
			return
		}
		if to == daoAddr && isOwner && rec.Step.Action == govTypes.DAOTransferString {
			// a transfer to the DAO itself leaves it where it was
			s.res.Probe("dao_transfer_to_itself")
			if !daoDelta.IsZero() {
				s.violate("C36", "dao-delta", "transfer-to-itself", fmt.Sprintf("height %d: tx id %d transfer of %s from the DAO to the DAO changed its balance by %s", t.h, rec.Step.ID, amt, daoDelta))
			}
			return
		}
		if daoDelta.IsZero() {
			if !feeOnly() {
				s.violate("C36", "dao-noop-touches-state", "gov_dao", fmt.Sprintf("height %d: tx id %d left the DAO account unchanged but changed other state", t.h, rec.Step.ID))
			}
			if amt.GT(t.vb.Balance(daoAddr)) {
				s.res.Probe("dao_amount_beyond_balance")
			}
			return
		}
		if !daoDelta.Equal(amt.Neg()) {
			s.violate("C36", "dao-delta", "gov_dao", fmt.Sprintf("height %d: tx id %d %s of %s changed the DAO account by %s", t.h, rec.Step.ID, rec.Step.Action, amt, daoDelta))
		}
		supplyDelta := t.va.SupplyAmt.Sub(t.vb.SupplyAmt)
		switch rec.Step.Action {
		case govTypes.DAOTransferString:
			want := amt
			if to == signer {
				want = amt.Sub(fee)
			}
			if to == feeAddr {
				want = amt.Add(fee) // the fee collector also receives this transaction's fee
			}
			if to != daoAddr && !t.delta(to).Equal(want) {
				s.violate("C36", "dao-transfer-recipient", "gov_dao", fmt.Sprintf("height %d: tx id %d transfer of %s: recipient changed by %s", t.h, rec.Step.ID, amt, t.delta(to)))
			}
			if !supplyDelta.IsZero() {
				s.violate("C36", "dao-transfer-changes-supply", "gov_dao", fmt.Sprintf("height %d: tx id %d changed supply by %s", t.h, rec.Step.ID, supplyDelta))
			}
		case govTypes.DAOBurnString:
			if !supplyDelta.Equal(amt.Neg()) {
				s.violate("C36", "dao-burn-supply", "gov_dao", fmt.Sprintf("height %d: tx id %d burn of %s changed supply by %s", t.h, rec.Step.ID, amt, supplyDelta))
			}
		}
		s.res.Probe("dao_by_owner_" + strings.ToLower(rec.Step.Action))
	}
}

func firstNonFee(t *txCtx, signer, feeAddr string) string {
	for _, c := range t.nonAccountChanges() {
		return c.String()
	}
	for _, a := range t.accountChanges() {
		if a != signer && a != feeAddr {
			return "account " + a + " by " + t.delta(a).String()
		}
	}
	return "signer delta " + t.delta(signer).String()
}

// checkStatusMoves (C24): within a transaction no node changes status (that happens in EndBlock at
// a session boundary) and an application leaves the staked state only through its own request.
func (s *Sim) checkStatusMoves(t *txCtx) {
	rec := t.rec
	for _, addr := range sortedAddrs(t.vb.Validators) {
		pv := t.vb.Validators[addr]
		nv, ok := t.va.Validators[addr]
		if !ok {
			s.violate("C24", "node-record-removed-by-tx", rec.Step.Kind, fmt.Sprintf("height %d: tx id %d (%s) removed node %s (status %d)", t.h, rec.Step.ID, rec.Step.Kind, addr, pv.Status))
		} else if nv.Status != pv.Status {
			s.violate("C24", "node-status-changed-by-tx", rec.Step.Kind, fmt.Sprintf("height %d: tx id %d (%s) changed node %s status %d -> %d", t.h, rec.Step.ID, rec.Step.Kind, addr, pv.Status, nv.Status))
		}
	}
	for _, addr := range sortedAddrs(t.vb.Apps) {
		pa := t.vb.Apps[addr]
		na, ok := t.va.Apps[addr]
		left := !ok || na.Status != pa.Status
		if !left || pa.Status != sdk.Staked {
			continue
		}
		own := rec.Step.Kind == "app_unstake" && s.key(rec.Step.From).String() == addr && rec.SignAddr == addr
		transfer := rec.Step.Kind == "app_stake" && rec.Step.Amount == 0 && len(rec.Step.Chains) == 0 && rec.SignAddr == addr
		if !own && !transfer {
			s.violate("C24", "app-left-staked-state-without-own-request", rec.Step.Kind, fmt.Sprintf("height %d: tx id %d (%s, signed by %s) moved application %s out of the staked state", t.h, rec.Step.ID, rec.Step.Kind, rec.SignAddr, addr))
		}
	}
}
