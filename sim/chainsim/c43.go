package chainsim

// C43: exporting the application state at a height and initialising a new chain from that export
// yields the same accounts and balances, supply, nodes, applications, parameters and pending
// claims. The import runs in a child process because pocket-core answers an inconsistent genesis
// with os.Exit; a child that dies is a failed import, which is this property's business.

import (
	"encoding/json"
	"fmt"
	"os"
	"os/exec"
	"sort"
	"strings"

	"github.com/pokt-network/pocket-core/app"
	sdk "github.com/pokt-network/pocket-core/types"
)

// StateSummary is the typed content the statement lists, rendered comparably.
type StateSummary struct {
	Balances map[string]string `json:"balances"` // non-zero balances only
	Accounts map[string]string `json:"accounts"` // every account record (address -> "zero-balance" | "funded")
	Supply   string            `json:"supply"`
	Nodes    map[string]string `json:"nodes"`
	Apps     map[string]string `json:"apps"`
	Params   map[string]string `json:"params"`
	Claims   map[string]string `json:"claims"`
	Errors   []string          `json:"errors,omitempty"`
}

func Summarise(v *View) *StateSummary {
	s := &StateSummary{Balances: map[string]string{}, Accounts: map[string]string{}, Nodes: map[string]string{}, Apps: map[string]string{}, Params: map[string]string{}, Claims: map[string]string{}, Supply: v.SupplyAmt.String(), Errors: v.Errors}
	for a, acc := range v.Accounts {
		if !acc.Upokt.IsZero() {
			s.Balances[a] = acc.Upokt.String()
			s.Accounts[a] = "funded"
		} else {
			s.Accounts[a] = "zero-balance"
		}
	}
	for a, n := range v.Validators {
		out := ""
		if n.OutputAddress != nil {
			out = n.OutputAddress.String()
		}
		dk := make([]string, 0)
		for k, sh := range n.RewardDelegators {
			dk = append(dk, fmt.Sprintf("%s=%d", k, sh))
		}
		sort.Strings(dk)
		s.Nodes[a] = fmt.Sprintf("status=%d jailed=%v tokens=%s chains=%v url=%s output=%s unstaking=%s delegators=%v", n.Status, n.Jailed, n.StakedTokens, n.Chains, n.ServiceURL, out, n.UnstakingCompletionTime.UTC().Format("2006-01-02T15:04:05.999999999Z"), dk)
	}
	for a, x := range v.Apps {
		s.Apps[a] = fmt.Sprintf("status=%d jailed=%v tokens=%s chains=%v allowance=%s unstaking=%s", x.Status, x.Jailed, x.StakedTokens, x.Chains, x.MaxRelays, x.UnstakingCompletionTime.UTC().Format("2006-01-02T15:04:05.999999999Z"))
	}
	for k, p := range v.Params {
		s.Params[k] = p
	}
	for k, c := range v.Claims {
		s.Claims[k] = fmt.Sprintf("%s/%s/%d root=%x total=%d from=%s type=%d exp=%d", c.SessionHeader.ApplicationPubKey, c.SessionHeader.Chain, c.SessionHeader.SessionBlockHeight, c.MerkleRoot.Hash, c.TotalProofs, c.FromAddress, c.EvidenceType, c.ExpirationHeight)
	}
	return s
}

type importJob struct {
	Cfg     *Config         `json:"cfg"`
	Genesis json.RawMessage `json:"genesis"`
	Out     string          `json:"out"`
}

// ImportChild is the body of the child process: import the genesis, dump the typed state.
func ImportChild(jobPath string) {
	raw, err := os.ReadFile(jobPath)
	if err != nil {
		fmt.Println("import child: ", err)
		os.Exit(3)
	}
	var job importJob
	if err := json.Unmarshal(raw, &job); err != nil {
		fmt.Println("import child: ", err)
		os.Exit(3)
	}
	var gen app.GenesisState
	if err := app.Codec().UnmarshalJSON(job.Genesis, &gen); err != nil {
		fmt.Println("import child: exported genesis does not parse:", err)
		os.Exit(4)
	}
	GenesisOverride = gen
	n := NewNode(job.Cfg, "import", NewDisks(), 0, nil)
	n.InitChain()
	d := TakeDump(n, 0)
	sum := Summarise(d.View())
	out, _ := json.Marshal(sum)
	if err := os.WriteFile(job.Out, out, 0o644); err != nil {
		os.Exit(3)
	}
}

func (s *Sim) checkExportImport() {
	h := s.drv.Height
	exported, err := s.node.App.ExportAppState(h, false, nil)
	if err != nil {
		s.violate("C43", "export-fails", "export", fmt.Sprintf("ExportAppState(%d): %v", h, err))
		return
	}
	want := Summarise(s.committedView)
	dir, err := os.MkdirTemp("", "c43-")
	if err != nil {
		panic("HARNESS: " + err.Error())
	}
	defer os.RemoveAll(dir)
	job := importJob{Cfg: s.cfg, Genesis: exported, Out: dir + "/summary.json"}
	jb, _ := json.Marshal(job)
	jobPath := dir + "/job.json"
	if err := os.WriteFile(jobPath, jb, 0o644); err != nil {
		panic("HARNESS: " + err.Error())
	}
	cmd := exec.Command(os.Args[0], "-test.run", "^TestImportChild$", "-test.count", "1")
	cmd.Env = append(os.Environ(), "SIM_IMPORT="+jobPath, "SIM_JOB=", "SIM_VERBOSE=1")
	outb, runErr := cmd.CombinedOutput()
	shape := fmt.Sprintf("unstaking-nodes=%v unstaking-apps=%v jailed=%v claims=%v", countVals(s.committedView, func(x nodesVal) bool { return x.Status == sdk.Unstaking }) > 0, countApps(s.committedView, sdk.Unstaking) > 0, countVals(s.committedView, func(x nodesVal) bool { return x.Jailed }) > 0, len(s.committedView.Claims) > 0)
	s.res.Case("export/" + shape)
	raw, rerr := os.ReadFile(job.Out)
	if runErr != nil || rerr != nil {
		msg := lastLines(string(outb), 3)
		s.violate("C43", "import-aborts", classifyAbort(msg), fmt.Sprintf("height %d (%s): a node initialised from its own export stopped: %v: %s", h, shape, runErr, msg))
		return
	}
	var got StateSummary
	if err := json.Unmarshal(raw, &got); err != nil {
		panic("HARNESS: " + err.Error())
	}
	report := func(oracle, what string, w, g map[string]string, subjectOf func(key, a, b string) string) {
		keys := map[string]bool{}
		for k := range w {
			keys[k] = true
		}
		for k := range g {
			keys[k] = true
		}
		for _, k := range sortedAddrs(keys) {
			a, oka := w[k]
			b, okb := g[k]
			if oka == okb && a == b {
				continue
			}
			subject := "missing-after-import"
			if !oka {
				subject = "appears-after-import"
			} else if okb {
				subject = subjectOf(k, a, b)
			}
			s.violate("C43", oracle, subject, fmt.Sprintf("height %d (%s): %s %s: exported %q, imported %q", h, shape, what, k, a, b))
		}
	}
	if got.Supply != want.Supply {
		s.violate("C43", "supply-differs", "import", fmt.Sprintf("height %d (%s): exported supply %s, after import %s", h, shape, want.Supply, got.Supply))
	}
	modOf := map[string]string{}
	for _, m := range ModuleNames {
		modOf[ModuleAddr(m)] = m
	}
	report("balances-differ", "balance of", want.Balances, got.Balances, func(k, a, b string) string {
		if m, ok := modOf[k]; ok {
			return "module-account/" + m
		}
		return "plain-account"
	})
	// the set of account records (balances are compared above: only presence is judged here)
	{
		wa, ga := map[string]string{}, map[string]string{}
		for a, k := range want.Accounts {
			if _, mod := modOf[a]; !mod {
				wa[a] = k
			}
		}
		for a := range got.Accounts {
			if _, mod := modOf[a]; !mod {
				ga[a] = wa[a]
				if _, ok := wa[a]; !ok {
					ga[a] = "new"
				}
			}
		}
		for _, a := range sortedAddrs(wa) {
			if _, ok := ga[a]; !ok {
				s.violate("C43", "accounts-differ", wa[a]+"-account-missing-after-import", fmt.Sprintf("height %d (%s): account %s (%s) exists on the exporting node and not after the import", h, shape, a, wa[a]))
				break
			}
		}
		for _, a := range sortedAddrs(ga) {
			if ga[a] == "new" {
				s.violate("C43", "accounts-differ", "account-appears-after-import", fmt.Sprintf("height %d (%s): account %s exists after the import only", h, shape, a))
				break
			}
		}
	}
	report("nodes-differ", "node", want.Nodes, got.Nodes, func(k, a, b string) string { return firstFieldDiff(a, b) })
	report("applications-differ", "application", want.Apps, got.Apps, func(k, a, b string) string { return firstFieldDiff(a, b) })
	report("parameters-differ", "parameter", want.Params, got.Params, func(k, a, b string) string { return k })
	report("claims-differ", "claim", want.Claims, got.Claims, func(k, a, b string) string { return firstFieldDiff(a, b) })
	s.res.Probe("export_import_roundtrip")
}

func lastLines(s string, n int) string {
	l := strings.Split(strings.TrimSpace(s), "\n")
	var keep []string
	for i, x := range l {
		if strings.HasPrefix(x, "panic:") {
			// keep the panic message and the first frame inside the repository
			out := x
			for _, y := range l[i+1:] {
				// sdk errors print over several lines (Codespace / Code / Message)
				if strings.HasPrefix(y, "goroutine") || strings.HasPrefix(y, "[signal") {
					break
				}
				if t := strings.TrimSpace(y); t != "" {
					out += " " + t
				}
			}
			for _, y := range l[i:] {
				if strings.Contains(y, "/repo/") {
					out += " @ " + strings.TrimSpace(y)
					break
				}
			}
			return out
		}
	}
	for _, x := range l {
		if strings.HasPrefix(x, "FAIL") || strings.HasPrefix(x, "exit status") || strings.TrimSpace(x) == "" {
			continue
		}
		keep = append(keep, x)
	}
	if len(keep) > n {
		keep = keep[len(keep)-n:]
	}
	out := strings.Join(keep, " | ")
	if len(out) > 400 {
		out = out[:400]
	}
	return out
}

func classifyAbort(msg string) string {
	switch {
	case strings.Contains(msg, "application_staked_tokens_pool") || strings.Contains(msg, "each application account"):
		return "application-pool-mismatch"
	case strings.Contains(msg, "staked_tokens_pool") || strings.Contains(msg, "each validator account"):
		return "node-pool-mismatch"
	case strings.Contains(msg, "is not a recognized parameter"):
		return "acl-key-not-recognized"
	case strings.Contains(msg, "application has less than minimum stake"):
		return "application-at-or-below-minimum-stake"
	case strings.Contains(msg, "validator has less than minimum stake"):
		return "node-below-minimum-stake"
	case strings.Contains(msg, "nil pointer dereference") && strings.Contains(msg, "x/auth/types/genesis.go"):
		return "account-without-public-key"
	case strings.Contains(msg, "panic"):
		return "panic"
	}
	return "other"
}

// firstFieldDiff names the first "key=value" field in which two rendered records differ.
func firstFieldDiff(a, b string) string {
	fa, fb := strings.Fields(a), strings.Fields(b)
	for i := 0; i < len(fa) && i < len(fb); i++ {
		if fa[i] != fb[i] {
			return strings.SplitN(fa[i], "=", 2)[0]
		}
	}
	return "shape"
}
