package main

type PropSpec struct {
	Engine         string
	Level          string
	QuickS         float64
	ThoroughS      float64
	MinBudget      int
	Rule           string
	Assumptions    []string
	RealStub       map[string]string
	ExhaustiveNote string
}

var storeRealStub = map[string]string{
	"store/cachekv, store/prefix, store/iavl, store/rootmulti (+heightcache), store/dbadapter, store/transient": "real",
	"LevelDB (tm-db DB)": "stub: simdb (ordered copy-on-write map, snapshot iterators, write-unit log; process-crash model)",
	"clock, network":     "not involved at this level",
}

var storeAssume = []string{
	"simdb is a faithful tm-db DB (snapshot iterators, atomic batches); process-crash model: a write that returned is durable",
	"reference model = Go maps; iteration domain [start,end) with nil = unbounded",
	"sampling, not proof: seeded search over operation histories",
}

var Props = map[string]PropSpec{
	"C01": {Engine: "storesim", Level: "exploration", QuickS: 25, ThoroughS: 600, MinBudget: 600,
		Rule:        "one evaluation = one generated operation history (20-160 ops) on a stack of real stores (base dbadapter|iavl, cachekv/prefix layers, nesting <=5) over a 5-letter key alphabet; a case is distinct by (layer kind, iterator direction, result length, nesting depth) of an executed range read; non-trivial = the read was compared against the parent-relative overlay model",
		Assumptions: storeAssume, RealStub: storeRealStub},
	"C02": {Engine: "storesim", Level: "exploration", QuickS: 25, ThoroughS: 600, MinBudget: 600,
		Rule:        "as C01 with prefix layers favoured (prefixes incl. empty, ff, ffff); a case is distinct by (layer kind, direction, result length, depth); the prefix slice handed to the store may have spare capacity; range bounds include the empty bound that is not nil",
		Assumptions: storeAssume, RealStub: storeRealStub},
	"C03": {Engine: "storesim", Level: "exploration", QuickS: 30, ThoroughS: 900, MinBudget: 500,
		Rule:        "one evaluation = one history (30-300 ops) of set/remove/save/delete-version/lazy-load on iavl.MutableTree with node cache in {1,2,8,10^4}; every check compares Get/Has/GetByIndex/IterateRange(both directions)/Size on the working tree and on every retained version with per-version maps and walks the node shape (hook H2); distinct case = (retained versions, working size) at a full check",
		Assumptions: storeAssume, RealStub: storeRealStub},
	"C04": {Engine: "storesim", Level: "exploration", QuickS: 30, ThoroughS: 900, MinBudget: 500,
		Rule:        "even seeds: iavl tree histories with reopen (fresh MutableTree over the surviving simdb, random node-cache size) and a never-reopened twin; odd seeds: rootmulti with 1-5 IAVL sub-stores, reopen and twin node; distinct case = (retained versions at a reopen / check)",
		Assumptions: storeAssume, RealStub: storeRealStub},
	"C05": {Engine: "storesim", Level: "exploration", QuickS: 30, ThoroughS: 900, MinBudget: 300,
		Rule:        "one evaluation = one multistore history with interleaved proof queries at committed versions; each proof is verified by a light-client actor against the recorded commit hash and then every single-field alteration (key, value, root, store name, each inner-node height/size/version/left/right, each leaf key/value-hash/version, each store-info name/hash, presence<->absence claim) must fail; distinct case = (present|absent, key position class); also offered and required to fail: a path node given the hash of its other child as well, a made-up substore entry placed before the honest list under the same store name, an absence proof for a stored key recombined from the genuine existence proofs of a smaller and a larger key, and an existence proof for an absent key in which a stored leaf (whose value spells out a made-up leaf) stands as a path node; stored values include the empty value",
		Assumptions: append([]string{"the version field of a multistore store-info is not part of the commit hash by design and is not altered"}, storeAssume...), RealStub: storeRealStub},
	"C07": {Engine: "storesim", Level: "fault_enumeration", QuickS: 30, ThoroughS: 900, MinBudget: 300,
		Rule:           "one evaluation = one multistore history (2-6 IAVL sub-stores) in which selected commits are run against a write-logging simdb; for each such commit EVERY crash image is rebuilt (any subset of sub-stores saved, any cut inside a multi-write save, every prefix of the multistore's own records) and reopened, compared with the last fully committed state, the interrupted block is re-executed and one further block committed; distinct case = (sub-store count, writes in block, previous height class); every third seed asks the same of a whole node (chainsim): blocks of a generated chain history are committed normally, then the application database is rebuilt as (state before Commit + the first k of the n recorded write units of that Commit), the node is restarted over it with the transaction index as before the block, and either reports the new height with exactly the committed state and app hash, or reports the previous height with exactly its state and re-executes the block to the same results, app hash and state; the run continues on the recovered node",
		Assumptions:    append([]string{"crash images are reconstructed from per-sub-store write logs (sub-stores write only under their own prefix; asserted on every logged commit)"}, storeAssume...),
		RealStub:       storeRealStub,
		ExhaustiveNote: "exhaustive per selected commit (2^k + extra images), not over histories"},
	"C08": {Engine: "storesim", Level: "exploration", QuickS: 30, ThoroughS: 900, MinBudget: 300,
		Rule:        "one evaluation = one multistore history with rollbacks to random earlier heights (fresh mounted store -> RollbackVersion -> reopen), then replay of the recorded blocks; distinct case = (rollback depth, blocks replayed)",
		Assumptions: storeAssume, RealStub: storeRealStub},
	"C09": {Engine: "storesim", Level: "exploration", QuickS: 30, ThoroughS: 900, MinBudget: 300,
		Rule:        "one evaluation = one multistore history with historical views (LoadLazyVersion, CacheMultiStoreWithVersion) opened at random retained heights, held across later writes/commits/other views and re-read; distinct case = (view mode, lag behind the tip); store queries /<store>/key and /<store>/subspace at committed heights are compared with the committed contents while the working tree holds uncommitted writes; the storage node runs with the height cache on for every other seed",
		Assumptions: storeAssume, RealStub: storeRealStub},
	"C10": {Engine: "storesim", Level: "exploration", QuickS: 30, ThoroughS: 900, MinBudget: 300,
		Rule:        "one evaluation = one history applied to two multistores, height cache on and off; reads (present/absent keys, Has, forward and reverse ranges) at heights the cache serves are compared between the two, nil distinguished from empty; distinct case = (lag, keys, ranges); range bounds include the empty bound that is not nil, stored values include the empty value",
		Assumptions: storeAssume, RealStub: storeRealStub},
}

func init() {
	Props["C34"] = PropSpec{Engine: "relaysim", Level: "exploration", QuickS: 60, ThoroughS: 1200, MinBudget: 300,
		Rule: "one evaluation = one history of rounds on a whole node at committed heights: per round 2-6 client relay requests (distinct, or identical retries; for the current session or, within the client tolerance, for the previous one) and optionally the node's own claim pass are in flight at once, each on its own goroutine parked at the hook-H1 yield points (relay validated, evidence loaded for read-modify-write, proof stored, evidence about to be sealed at the limit, claim about to seal); every step of the schedule names the one task that proceeds to its next yield point, blocks are executed between rounds; after each round the stored evidence of every touched session is judged: no proof hash twice, not more proofs than the application allows this node, every relay answered with a signed response before the evidence was first seen sealed is present; distinct case = (proofs stored, answered, sealed, identical requests present)",
		Assumptions: []string{
			"interleaving granularity = the hook-H1 yield points (all placed where no lock is held); data races inside a single critical section are not scheduled",
			"one goroutine runs at a time (parked goroutines are released one by one by the schedule), so the interleaving is the step list and replays exactly",
			"per-application allowances are kept small (tens of relays) by configuration so that a handful of concurrent requests reaches the limit",
			"sampling, not proof: seeded search over interleavings and request mixes",
		},
		RealStub: map[string]string{
			"app.HandleRelay, x/pocketcore keeper (HandleRelay, SendClaimTx), types (Relay.Validate, evidence cache, sealing), sessions, x/apps, x/nodes, store": "real",
			"goroutine scheduler":   "simulated: seeded choice of which parked request proceeds (hook H1 SimYield)",
			"hosted chain endpoint": "stub: in-process RoundTripper",
			"Tendermint":            "stub: block driver (as chainsim)",
			"LevelDB":               "stub: simdb",
			"pocket-core HTTP RPC":  "not run: requests call PocketCoreApp.HandleRelay, the function the RPC handler calls",
		}}
	Props["C40"] = PropSpec{Engine: "kbsim", Level: "exploration", QuickS: 40, ThoroughS: 900, MinBudget: 120,
		Rule: "one evaluation = one generated keybase history (12-40 operations: create, import of raw keys and of exported armors, export as object and as armor, sign, passphrase update, delete with passphrase, unsafe delete, get, list) on the real keybase over the simulated disk, with the right passphrase or a near-miss (case, trailing blank, NUL, common 72-byte prefix, unicode, empty), reopen of the keybase over the surviving disk, single-bit flips of stored records and of exported armors; oracle: address -> (key, passphrase) map - a private key is only ever handed out (export, sign, update, delete, armor decrypt/import) for its passphrase and is byte-identical to the stored key, listed = stored, deleted = gone; after a flip only the damaged record is relaxed (it may fail, it may never yield another key or accept another passphrase); distinct case = (operation, record state, right/wrong passphrase, outcome); passphrases include pairs that are one key to HMAC-SHA256 (trailing zero bytes, a passphrase over 64 bytes and its digest), decided by a read-only probe; GetCoinbase/SetCoinbase are part of the operation mix: the coinbase pair is a stored, current record",
		Assumptions: []string{
			"crypto/rand is replaced by a seeded stream through testing/cryptotest.SetGlobalRandom (Go 1.26), so key generation and salts are a function of the seed",
			"the pure half of the statement (the space of armor mutations as such, key-derivation strength) is not claimed; armor and record flips are single-bit faults at schedule-chosen positions",
			"sampling, not proof: seeded search over operation histories",
		},
		RealStub: map[string]string{
			"crypto/keys (dbKeybase), crypto/keys/mintkey (scrypt + AES-GCM armor), crypto (ed25519)": "real (scrypt at the repository's own cost parameters)",
			"LevelDB under the keybase":                              "stub: simdb through hook H3 keys.NewWithDB",
			"lazy_keybase (opens goleveldb on a directory per call)": "not run: it only wraps the same dbKeybase around a freshly opened DB; reopen is modelled by a new dbKeybase over the surviving simdb",
			"clock, network":                                         "not involved",
		}}
}

var chainRealStub = map[string]string{
	"app, baseapp, x/* keepers+handlers+ante, codec, crypto, store/*":            "real",
	"types.TransactionIndexer, Tendermint BlockStore, block/header/commit types": "real library code over simdb, fed by the driver",
	"Tendermint consensus, mempool, p2p, handshake, evidence pool, RPC server":   "stub: seeded block driver + TmStub (client.Client) following the pokt fork's call order",
	"LevelDB":                    "stub: simdb",
	"hosted chain HTTP endpoint": "stub: in-process RoundTripper",
	"wall clock":                 "real outside synctest replicas; virtual inside (C12)",
}

var chainAssume = []string{
	"typed views of raw KV dumps are decoded with the repository's own codec and key prefixes (trusted base)",
	"the driver follows the pokt tendermint fork's call order (SaveBlock -> BeginBlock..Commit -> index); Tendermint itself is a stub",
	"verdict-bearing configurations start in the current protocol era (all features active by height 4); legacy mainnet-height branches are not reached",
	"sampling, not proof: seeded search over generated histories",
}

func chainProp(quick, thorough float64, rule string) PropSpec {
	return PropSpec{Engine: "chainsim", Level: "exploration", QuickS: quick, ThoroughS: thorough, MinBudget: 250, Rule: rule, Assumptions: chainAssume, RealStub: chainRealStub}
}

func init() {
	base := "one evaluation = one simulated chain history (40-140 generated steps: signed transactions with adversarial signature/fee/encoding treatments, blocks with time gaps, absent votes, double-sign evidence, mempool reordering, off-chain calls, restarts) on a swarm-drawn configuration; every ABCI phase boundary is dumped and judged on the diff; "
	Props["C06"] = chainProp(45, 900, base+"distinct case = committed population shape; non-trivial = block executed with transient-store and commit-version checks; every third seed drives the multistore alone (storesim): two nodes receive identical persistent writes, one of them also transient writes made directly, through a cache-wrapped multistore and through a nested one; every commit must advance the version by one, give both nodes the same hash and leave the transient store empty")
	Props["C11"] = chainProp(45, 900, base+"off-chain calls (queries at any height, CheckTx, app/simulate of every tx kind) are placed at every ABCI boundary; distinct case = (call kind/path, placement); interference includes CheckTx of type recheck and the simulation of an unsigned proof transaction with a made-up merkle path for a pending claim of a local servicer, and the relay evidence the node's servicers hold must be the same before and after every off-chain call")
	Props["C12"] = chainProp(60, 900, base+"the recorded chain log is re-executed by replicas: plain (fresh globals), GOMAXPROCS 16, wall clock decades behind and decades ahead of chain time (testing/synctest bubble); per-block digests (tx code/codespace/data, validator updates, app hash) must be equal; distinct case = tx outcomes and replica sets; reward delegators include keys that have no account yet; a further replica is the process that ran InitChain and never restarted (protocol switches set by InitChain alone), compared with the reference that derives them as a restarted process does")
	Props["C13"] = chainProp(60, 900, base+"the primary serves queries at any height, CheckTx and simulations at every ABCI boundary, restarts with cold caches and runs with small node-local caches; a plain replica re-executes the same blocks with none of that; per-block digests must be equal; distinct case = (call kind, placement)")
	Props["C14"] = chainProp(45, 900, base+"distinct case = (tx kind, signature treatment) of delivered unauthenticated transactions and (tx kind, outcome) of authenticated ones")
	Props["C15"] = chainProp(45, 900, base+"fees drawn around the required fee and balances around the fee; distinct case = (tx kind, encoding, outcome); senders include two-of-two multi-signature accounts (funded at genesis) with every fee treatment")
	Props["C16"] = chainProp(45, 900, base+"resubmission of identical bytes and of re-encodings that the node's decoder maps to the same StdTx, in the same or later blocks; distinct case = (tx kind, encoding, outcome)")
	Props["C17"] = chainProp(45, 900, base+"distinct case = committed population shape (nodes, apps, jailed, unstaking)")
	Props["C18"] = chainProp(45, 900, base+"send amounts {1, balance-fee, balance, balance+1, random}, self-sends, fresh recipients; distinct case = (tx kind, encoding, outcome); recipients include module account addresses")
	Props["C19"] = chainProp(45, 900, base+"distinct case = committed population shape (nodes, apps, jailed, unstaking); plain sends to the pool's own address are generated, and the simulator keeps count of what they added")
	Props["C20"] = chainProp(45, 900, base+"distinct case = committed population shape (nodes, apps, jailed, unstaking); plain sends to the pool's own address are generated, and the simulator keeps count of what they added")
	Props["C21"] = chainProp(45, 900, base+"index entries are parsed from raw keys (0x23|power|^addr, 0x22|chain|addr, 0x41|time) and compared both ways with the records; distinct case = committed population shape")
	Props["C22"] = chainProp(45, 900, base+"the driver applies every reported update cumulatively; distinct case = (updates in block, set size, eligible nodes)")
	Props["C23"] = chainProp(45, 900, base+"edit-stake matrix: amount {same,+1,+1M,-1}, output address kept/changed, delegators, signed by operator or output address, staggered OEDIT/RewardDelegators activation; distinct case = (stake bumped, output changed, delegators changed)")
	Props["C24"] = chainProp(45, 900, base+"begin-unstake requests, forced unstakes, time gaps from 1 s to 30 days around completion times; EndBlock diffs must contain exactly the due payouts; distinct case = payouts per block and delivered tx outcomes; the simulator keeps its own record of the height since which each node record and each waiting-to-unstake entry exists: a node may be released to unstaking only by an entry that is not older than its record")
	Props["C25"] = chainProp(45, 900, base+"absent votes over the signing window, double-sign evidence, unjail attempts by operator/output/strangers before and after the jail end; distinct case = committed population shape")
	Props["C26"] = chainProp(45, 900, base+"BeginBlock diffs: collected fees leave the fee collector to the DAO and the proposer side with sum zero and the DAO share matching the exact rational split; (relay-reward split is checked where proofs are accepted); distinct case = (dao%, proposer%, recipients)")
	Props["C28"] = chainProp(45, 900, base+"application stakes around minimum stake, chain limit, funds and the max-applications boundary; transfers to fresh keys; distinct case = (new|edit) and transfer outcomes")
	Props["C37"] = chainProp(45, 900, base+"genesis leaves a random subset of features unscheduled; feature-upgrade transactions schedule them (and restate scheduled ones) while the chain runs, with clean restarts in between; the stored list, the node's activation schedule and the activation predicates at h-1,h,h+1 are compared with the model schedule after every upgrade and every restart; distinct case = (features named, accepted); the upgrade record is also written through the parameter-change message by the owner of gov/upgrade")
	Props["C42"] = chainProp(45, 900, base+"every block is indexed through AddBatch exactly as the fork does; a searcher then sweeps hash lookups, height, sender, sender+height and recipient searches in both directions with page sizes {1,2,3,30} through PocketCoreApp.Query*Txs -> stubbed TxSearch -> real indexer, at the end of the run and after every restart; distinct case = (indexed txs, signers, recipients); search by hash returns exactly the indexed transaction and nothing for a hash that is not indexed")
	Props["C43"] = chainProp(60, 900, base+"at the end of the run the state is exported (ExportAppState at the last height) and imported by a child process (InitChain with the export); accounts and balances, supply, nodes, applications, all parameters and pending claims are compared as typed values; distinct case = shape of the exported state (unstaking nodes/apps, jailed, claims); the set of account records (zero-balance ones included) is compared, and runs re-issue claims under the other evidence type so that an export holds claims of both types for one session")
	relay := "a gateway actor dispatches and sends 1-140 signed relays per step for staked applications to the servicers this node runs (hosted chain = in-process RoundTripper); the node's own SendClaimTx/SendProofTx are called at schedule-chosen points and their transactions join the next block; "
	Props["C29"] = chainProp(60, 900, base+relay+"before every claim each stored evidence is swept: every leaf index must yield a proof that verifies against the root built from the same set with ceil(log2(n)) levels, and the node's own proof transaction must never be rejected with the merkle/level-count codes; set sizes are whatever the traffic produced (sampling); distinct case = evidence sizes swept")
	Props["C30"] = chainProp(60, 900, base+relay+"a cheating servicer alters one field of its pending proof (leaf, index, sibling hash, sibling range, target range, level count) and re-signs it, or counts one relay twice before claiming; distinct case = (mutation) of delivered forged proofs")
	Props["C31"] = chainProp(60, 900, base+relay+"claims arrive at every height of the acceptance window because the auto-claim pass is a scheduled step; for every accepted claim the block whose hash selects the leaf must have been proposed strictly after the claim's block; every rewarded proof's leaf index is recomputed from the driver's own block log (SHA3-256 of {hash of the block before the proof height, session header hash}, first 8 bytes mod claimed count) and must match and lie inside the claimed count; distinct case = claim height relative to the proof height; local servicers also send proofs before the proof height for the leaf the current tip's hash selects: no proof may be accepted before the selecting block exists")
	Props["C32"] = chainProp(60, 900, base+relay+"claim life-cycle table per (servicer, session header): admission conditions in the session-start and current state, reward only for a live claim with a verifying proof and at most once, overwritten and expired claims; distinct case = claim/proof outcomes; local servicers re-issue their claims and proofs under the other evidence type and re-issue claims for the session block height + 1: the relays of a session are paid through one claim, and a claim names a height at which a session starts")
	Props["C33"] = chainProp(60, 900, base+relay+"every dispatch response is checked: count, distinctness, staked-for-chain at session start, not jailed at both reference points, identical answer for identical inputs (also after restarts), insufficient-nodes only if fewer eligible nodes exist; distinct case = (session nodes, population)")
	Props["C35"] = chainProp(60, 900, base+relay+"one relay per step may have exactly one aspect altered (token signature, client signature, client key, request hash, servicer key, chain, session height, meta block height, unstaked application); it must be refused and leave the evidence unchanged, the unaltered relays around it must be answered, signed and recorded; distinct case = mutation kinds and refusal reasons; every third C35 configuration runs the node with a client session sync allowance of one session, relays also name a height inside the previous session (at which no session starts), and a fresh relay for a past session that the node refuses directly is offered again through the ABCI query route custom/pocketcore/relay at a height of that session")
	Props["C36"] = chainProp(45, 900, base+"parameter changes, upgrades and DAO transfers/burns by the owner and by other keys, amounts around the DAO balance; distinct case = (tx kind, encoding, outcome)")
}
