package main

type PropSpec struct {
	Engine         string
	Level          string
	QuickS         float64
	ThoroughS      float64
	MinBudget      int
	Rule           string
	Assumptions    []string
	RealStub       map[string]string
	ExhaustiveNote string
}

var storeRealStub = map[string]string{
	"store/cachekv, store/prefix, store/iavl, store/rootmulti (+heightcache), store/dbadapter, store/transient": "real",
	"LevelDB (tm-db DB)": "stub: simdb (ordered copy-on-write map, snapshot iterators, write-unit log; process-crash model)",
	"clock, network":     "not involved at this level",
}

var storeAssume = []string{
	"simdb is a faithful tm-db DB (snapshot iterators, atomic batches); process-crash model: a write that returned is durable",
	"reference model = Go maps; iteration domain [start,end) with nil = unbounded",
	"sampling, not proof: seeded search over operation histories",
}

var Props = map[string]PropSpec{
	"C01": {Engine: "storesim", Level: "exploration", QuickS: 25, ThoroughS: 600, MinBudget: 600,
		Rule:        "one evaluation = one generated operation history (20-160 ops) on a stack of real stores (base dbadapter|iavl, cachekv/prefix layers, nesting <=5) over a 5-letter key alphabet; a case is distinct by (layer kind, iterator direction, result length, nesting depth) of an executed range read; non-trivial = the read was compared against the parent-relative overlay model",
		Assumptions: storeAssume, RealStub: storeRealStub},
	"C02": {Engine: "storesim", Level: "exploration", QuickS: 25, ThoroughS: 600, MinBudget: 600,
		Rule:        "as C01 with prefix layers favoured (prefixes incl. empty, ff, ffff); a case is distinct by (layer kind, direction, result length, depth)",
		Assumptions: storeAssume, RealStub: storeRealStub},
	"C03": {Engine: "storesim", Level: "exploration", QuickS: 30, ThoroughS: 900, MinBudget: 500,
		Rule:        "one evaluation = one history (30-300 ops) of set/remove/save/delete-version/lazy-load on iavl.MutableTree with node cache in {1,2,8,10^4}; every check compares Get/Has/GetByIndex/IterateRange(both directions)/Size on the working tree and on every retained version with per-version maps and walks the node shape (hook H2); distinct case = (retained versions, working size) at a full check",
		Assumptions: storeAssume, RealStub: storeRealStub},
	"C04": {Engine: "storesim", Level: "exploration", QuickS: 30, ThoroughS: 900, MinBudget: 500,
		Rule:        "even seeds: iavl tree histories with reopen (fresh MutableTree over the surviving simdb, random node-cache size) and a never-reopened twin; odd seeds: rootmulti with 1-5 IAVL sub-stores, reopen and twin node; distinct case = (retained versions at a reopen / check)",
		Assumptions: storeAssume, RealStub: storeRealStub},
	"C05": {Engine: "storesim", Level: "exploration", QuickS: 30, ThoroughS: 900, MinBudget: 300,
		Rule:        "one evaluation = one multistore history with interleaved proof queries at committed versions; each proof is verified by a light-client actor against the recorded commit hash and then every single-field alteration (key, value, root, store name, each inner-node height/size/version/left/right, each leaf key/value-hash/version, each store-info name/hash, presence<->absence claim) must fail; distinct case = (present|absent, key position class)",
		Assumptions: append([]string{"the version field of a multistore store-info is not part of the commit hash by design and is not altered"}, storeAssume...), RealStub: storeRealStub},
	"C07": {Engine: "storesim", Level: "fault_enumeration", QuickS: 30, ThoroughS: 900, MinBudget: 300,
		Rule:           "one evaluation = one multistore history (2-6 IAVL sub-stores) in which selected commits are run against a write-logging simdb; for each such commit EVERY crash image is rebuilt (any subset of sub-stores saved, any cut inside a multi-write save, every prefix of the multistore's own records) and reopened, compared with the last fully committed state, the interrupted block is re-executed and one further block committed; distinct case = (sub-store count, writes in block, previous height class)",
		Assumptions:    append([]string{"crash images are reconstructed from per-sub-store write logs (sub-stores write only under their own prefix; asserted on every logged commit)"}, storeAssume...),
		RealStub:       storeRealStub,
		ExhaustiveNote: "exhaustive per selected commit (2^k + extra images), not over histories"},
	"C08": {Engine: "storesim", Level: "exploration", QuickS: 30, ThoroughS: 900, MinBudget: 300,
		Rule:        "one evaluation = one multistore history with rollbacks to random earlier heights (fresh mounted store -> RollbackVersion -> reopen), then replay of the recorded blocks; distinct case = (rollback depth, blocks replayed)",
		Assumptions: storeAssume, RealStub: storeRealStub},
	"C09": {Engine: "storesim", Level: "exploration", QuickS: 30, ThoroughS: 900, MinBudget: 300,
		Rule:        "one evaluation = one multistore history with historical views (LoadLazyVersion, CacheMultiStoreWithVersion) opened at random retained heights, held across later writes/commits/other views and re-read; distinct case = (view mode, lag behind the tip)",
		Assumptions: storeAssume, RealStub: storeRealStub},
	"C10": {Engine: "storesim", Level: "exploration", QuickS: 30, ThoroughS: 900, MinBudget: 300,
		Rule:        "one evaluation = one history applied to two multistores, height cache on and off; reads (present/absent keys, Has, forward and reverse ranges) at heights the cache serves are compared between the two, nil distinguished from empty; distinct case = (lag, keys, ranges)",
		Assumptions: storeAssume, RealStub: storeRealStub},
}
