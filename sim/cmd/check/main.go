// check is the orchestrator: it rebuilds the simulation worker against /repo's working tree,
// fans seeds out to worker processes, classifies what they report, minimises and replays
// failures, and writes the evidence file.
//
//	check <property> [--tier quick|thorough] [--seed N] [--budget seconds] [--workers N]
//	check <property> --replay <file>
//	check selftest [--long]
//
// exit 0: property held on everything explored (KNOWN-FINDING lines possible)
// exit 1: VIOLATION property=<id> replay=<path>
// exit 2: harness trouble (build failure, watchdog, worker death, non-reproducing replay)
package main

import (
	"bufio"
	"encoding/json"
	"fmt"
	"os"
	"os/exec"
	"path/filepath"
	"runtime"
	"sort"
	"strconv"
	"strings"
	"sync"
	"time"

	"verif/sim/core"
)

const verifDir = "/verif"

type Line struct {
	Kind     string         `json:"kind"`
	Seed     uint64         `json:"seed,omitempty"`
	Result   *core.Result   `json:"result,omitempty"`
	Schedule *core.Schedule `json:"schedule,omitempty"`
	Panic    string         `json:"panic,omitempty"`
	Runs     int            `json:"runs,omitempty"`
	WallS    float64        `json:"wall_s,omitempty"`
}

type Job struct {
	Mode          string  `json:"mode"`
	Engine        string  `json:"engine"`
	Property      string  `json:"property"`
	Tier          string  `json:"tier"`
	SeedBase      uint64  `json:"seed_base"`
	Start         int     `json:"start"`
	Stride        int     `json:"stride"`
	MaxRuns       int     `json:"max_runs"`
	BudgetS       float64 `json:"budget_s"`
	Out           string  `json:"out"`
	Schedule      string  `json:"schedule"`
	Identity      string  `json:"identity"`
	MinBudget     int     `json:"min_budget"`
	KeepSchedules int     `json:"keep_schedules"`
}

type KnownFinding struct {
	Property    string `json:"property"`
	Identity    string `json:"identity"`
	Description string `json:"description"`
	Replay      string `json:"replay,omitempty"`
}

type KnownFile struct {
	Findings []KnownFinding `json:"findings"`
	Fixed    []string       `json:"fixed"`
}

func die(code int, format string, a ...interface{}) {
	fmt.Fprintf(os.Stderr, format+"\n", a...)
	os.Exit(code)
}

func goEnv() []string {
	env := os.Environ()
	env = append(env, "GOFLAGS=-mod=mod", "GOPROXY=off", "GOSUMDB=off", "GOTOOLCHAIN=local", "CGO_ENABLED=0")
	return env
}

// build compiles the worker test binary against the current /repo tree with the verif tag.
func build(binPath string) {
	t0 := time.Now()
	cmd := exec.Command("go1.26.8", "test", "-c", "-tags", "verif", "-o", binPath, "./worker")
	cmd.Dir = filepath.Join(verifDir, "sim")
	cmd.Env = goEnv()
	out, err := cmd.CombinedOutput()
	if err != nil {
		fmt.Fprintf(os.Stderr, "%s\n", out)
		die(2, "HARNESS: build of the simulation worker against /repo failed: %v", err)
	}
	fmt.Fprintf(os.Stderr, "built worker in %.1fs\n", time.Since(t0).Seconds())
}

func runWorker(bin string, job Job, jobPath string, timeout time.Duration, gomaxprocs int) (lines []Line, exitErr error, killed bool) {
	raw, _ := json.Marshal(job)
	if err := os.WriteFile(jobPath, raw, 0o644); err != nil {
		die(2, "HARNESS: %v", err)
	}
	os.Remove(job.Out)
	cmd := exec.Command(bin, "-test.run", "^TestWorker$", "-test.timeout", "0", "-test.count", "1")
	cmd.Env = append(os.Environ(), "SIM_JOB="+jobPath, fmt.Sprintf("GOMAXPROCS=%d", gomaxprocs))
	logf, _ := os.Create(job.Out + ".log")
	cmd.Stdout, cmd.Stderr = logf, logf
	if err := cmd.Start(); err != nil {
		die(2, "HARNESS: cannot start worker: %v", err)
	}
	done := make(chan error, 1)
	go func() { done <- cmd.Wait() }()
	select {
	case exitErr = <-done:
	case <-time.After(timeout):
		cmd.Process.Kill()
		<-done
		killed = true
	}
	logf.Close()
	f, err := os.Open(job.Out)
	if err == nil {
		sc := bufio.NewScanner(f)
		sc.Buffer(make([]byte, 1<<20), 1<<28)
		for sc.Scan() {
			var l Line
			if json.Unmarshal(sc.Bytes(), &l) == nil {
				lines = append(lines, l)
			}
		}
		f.Close()
	}
	return
}

// logTail returns the last n non-empty lines of a worker's output.
func logTail(path string, n int) string {
	raw, err := os.ReadFile(path)
	if err != nil {
		return ""
	}
	var keep []string
	for _, l := range strings.Split(string(raw), "\n") {
		if strings.TrimSpace(l) == "" || strings.HasPrefix(l, "Can't Decrypt") {
			continue
		}
		if len(l) > 300 {
			l = l[:300]
		}
		keep = append(keep, "    | "+l)
	}
	if len(keep) > n {
		// keep the first lines of the failure (panic message) rather than the end of a long stack
		for i, l := range keep {
			if strings.Contains(l, "panic:") || strings.Contains(l, "fatal error:") {
				keep = keep[i:]
				break
			}
		}
		if len(keep) > n {
			keep = keep[:n]
		}
	}
	return strings.Join(keep, "\n")
}

func loadKnown() KnownFile {
	var k KnownFile
	raw, err := os.ReadFile(filepath.Join(verifDir, "known_findings.json"))
	if err == nil {
		if err := json.Unmarshal(raw, &k); err != nil {
			die(2, "HARNESS: known_findings.json: %v", err)
		}
	}
	return k
}

func main() {
	if len(os.Args) < 2 {
		die(2, "usage: check <property>|selftest [--tier quick|thorough] [--replay file]")
	}
	prop := os.Args[1]
	if prop == "list" {
		b, _ := json.MarshalIndent(Props, "", " ")
		fmt.Println(string(b))
		return
	}
	tier := os.Getenv("VERIF_TIER")
	if tier == "" {
		tier = "quick"
	}
	seedBase := uint64(1)
	if s := os.Getenv("VERIF_SEED"); s != "" {
		if v, err := strconv.ParseInt(s, 10, 64); err == nil {
			seedBase = uint64(v)
		}
	}
	replay := ""
	budget := 0.0
	workers := runtime.NumCPU()
	if workers > 16 {
		workers = 16
	}
	long := false
	for i := 2; i < len(os.Args); i++ {
		a := os.Args[i]
		next := func() string {
			i++
			if i >= len(os.Args) {
				die(2, "missing value for %s", a)
			}
			return os.Args[i]
		}
		switch a {
		case "--tier":
			tier = next()
		case "--seed":
			v, _ := strconv.ParseInt(next(), 10, 64)
			seedBase = uint64(v)
		case "--replay":
			replay = next()
		case "--budget":
			budget, _ = strconv.ParseFloat(next(), 64)
		case "--workers":
			workers, _ = strconv.Atoi(next())
		case "--long":
			long = true
		default:
			die(2, "unknown argument %s", a)
		}
	}
	os.MkdirAll(filepath.Join(verifDir, "bin"), 0o755)
	bin := filepath.Join(verifDir, "bin", fmt.Sprintf("sim.%d.test", os.Getpid()))
	build(bin)
	defer os.Remove(bin)
	code := 0
	if prop == "selftest" {
		code = selftest(bin, long, workers)
	} else {
		spec, ok := Props[prop]
		if !ok {
			os.Remove(bin)
			die(2, "unknown or unclaimed property %s", prop)
		}
		if replay != "" {
			code = doReplay(bin, prop, spec, replay)
		} else {
			code = doCheck(bin, prop, spec, tier, seedBase, budget, workers)
		}
	}
	os.Remove(bin)
	os.Exit(code)
}

func doReplay(bin, prop string, spec PropSpec, path string) int {
	outDir := filepath.Join(verifDir, "out", prop)
	os.MkdirAll(outDir, 0o755)
	raw, err := os.ReadFile(path)
	if err != nil {
		die(2, "HARNESS: %v", err)
	}
	var sched core.Schedule
	if err := json.Unmarshal(raw, &sched); err != nil {
		die(2, "HARNESS: replay file: %v", err)
	}
	// worker job and output files are private to this invocation: two checks of one property may run
	// at the same time (another tier, another copy of the harness)
	scratch := filepath.Join(outDir, fmt.Sprintf("run.%d", os.Getpid()))
	os.MkdirAll(scratch, 0o755)
	defer os.RemoveAll(scratch)
	job := Job{Mode: "replay", Engine: sched.Engine, Property: sched.Property, Schedule: path, Out: filepath.Join(scratch, "replay.jsonl")}
	lines, _, killed := runWorker(bin, job, filepath.Join(scratch, "replay.job.json"), 20*time.Minute, 1)
	if killed {
		die(2, "HARNESS: replay timed out")
	}
	for _, l := range lines {
		if l.Kind == "run" {
			if l.Result == nil {
				die(2, "HARNESS: replay panicked: %s", l.Panic)
			}
			for _, v := range l.Result.Violations {
				fmt.Printf("violation %s at step %d: %s\n", v.Identity(), v.Step, v.Detail)
			}
			if sched.Expect != "" && l.Result.Has(sched.Expect) || sched.Expect == "" && len(l.Result.Violations) > 0 {
				fmt.Printf("VIOLATION property=%s replay=%s\n", prop, path)
				return 1
			}
			fmt.Printf("replay of %s: no violation reproduced\n", path)
			return 0
		}
	}
	die(2, "HARNESS: replay produced no result (worker died)")
	return 2
}

type agg struct {
	runs       int
	steps      int
	simSeconds float64
	probes     map[string]int
	faults     map[string]int
	caseKeys   map[string]bool
	schedFPs   map[string]bool
	logDigests map[string]bool
	samples    []*core.Schedule
	violations map[string][]violRun
	deaths     []string
	wall       float64
}

type violRun struct {
	v     core.Violation
	sched *core.Schedule
}

func doCheck(bin, prop string, spec PropSpec, tier string, seedBase uint64, budget float64, workers int) int {
	t0 := time.Now()
	outDir := filepath.Join(verifDir, "out", prop)
	os.MkdirAll(outDir, 0o755)
	// worker job, output and log files are private to this invocation (see doReplay); replay files
	// are named by seed and their content is a function of the seed, so they stay in outDir
	scratch := filepath.Join(outDir, fmt.Sprintf("run.%d", os.Getpid()))
	os.MkdirAll(scratch, 0o755)
	if budget == 0 {
		budget = spec.QuickS
		if tier == "thorough" {
			budget = spec.ThoroughS
		}
	}
	a := &agg{probes: map[string]int{}, faults: map[string]int{}, caseKeys: map[string]bool{}, schedFPs: map[string]bool{}, logDigests: map[string]bool{}, violations: map[string][]violRun{}}
	var mu sync.Mutex
	var wg sync.WaitGroup
	harness := []string{}
	for w := 0; w < workers; w++ {
		wg.Add(1)
		go func(w int) {
			defer wg.Done()
			job := Job{Mode: "batch", Engine: spec.Engine, Property: prop, Tier: tier, SeedBase: seedBase, Start: w, Stride: workers,
				BudgetS: budget, Out: filepath.Join(scratch, fmt.Sprintf("w%02d.jsonl", w)), KeepSchedules: 1}
			lines, exitErr, killed := runWorker(bin, job, filepath.Join(scratch, fmt.Sprintf("w%02d.job.json", w)), time.Duration(budget*4+120)*time.Second, 1)
			mu.Lock()
			defer mu.Unlock()
			var started *uint64
			ended := false
			for _, l := range lines {
				switch l.Kind {
				case "start":
					s := l.Seed
					started = &s
				case "run":
					started = nil
					if l.Result == nil {
						harness = append(harness, fmt.Sprintf("seed %d panicked: %s", l.Seed, l.Panic))
						continue
					}
					a.add(l)
				case "end":
					ended = true
					a.wall += l.WallS
				}
			}
			if killed {
				harness = append(harness, fmt.Sprintf("worker %d hit the watchdog", w))
			} else if !ended {
				sd := "?"
				if started != nil {
					sd = fmt.Sprint(*started)
				}
				tail := logTail(job.Out+".log", 25)
				// A process death in the middle of a batch may come from something an earlier run of the
				// same process left behind (a goroutine of the code under test that outlived its run).
				// The interrupted seed is run again alone in a fresh process: if it completes, its result
				// counts and the death is reported as a note; if it dies again it is a harness failure.
				reproduced := true
				if started != nil && *started >= seedBase*1000003 {
					idx := int(*started - seedBase*1000003)
					j2 := job
					j2.Start, j2.Stride, j2.MaxRuns, j2.BudgetS = idx, 1, 1, 0
					j2.Out = filepath.Join(scratch, fmt.Sprintf("w%02d.retry.jsonl", w))
					mu.Unlock()
					l2, _, k2 := runWorker(bin, j2, filepath.Join(scratch, fmt.Sprintf("w%02d.retry.job.json", w)), 10*time.Minute, 1)
					mu.Lock()
					for _, l := range l2 {
						if l.Kind == "run" && l.Result != nil && !k2 {
							a.add(l)
							reproduced = false
						}
					}
				}
				if reproduced {
					a.deaths = append(a.deaths, fmt.Sprintf("worker %d died (%v) while running seed %s, and again when that seed ran alone; see %s.log\n%s", w, exitErr, sd, job.Out, tail))
				} else {
					a.probes["harness_worker_death_not_reproducible"]++
					fmt.Fprintf(os.Stderr, "NOTE: worker %d died (%v) while running seed %s after %d runs in the same process; the seed completes when run alone in a fresh process (result counted). Last output of the dead worker:\n%s\n", w, exitErr, sd, len(lines), tail)
				}
			}
		}(w)
	}
	wg.Wait()

	known := loadKnown()
	isKnown := func(id string) *KnownFinding {
		for i := range known.Findings {
			if known.Findings[i].Identity == id {
				return &known.Findings[i]
			}
		}
		return nil
	}
	ids := make([]string, 0, len(a.violations))
	for id := range a.violations {
		ids = append(ids, id)
	}
	sort.Strings(ids)
	code := 0
	newViol := 0
	printedKnown := map[string]bool{}
	for _, id := range ids {
		vr := a.violations[id]
		if !strings.HasPrefix(id, prop+"|") {
			continue // an oracle of another property fired in a shared run; that property's own check reports it
		}
		if k := isKnown(id); k != nil {
			if !printedKnown[id] {
				fmt.Printf("KNOWN-FINDING: property=%s %s (%s; seen in %d runs)\n", prop, k.Description, id, len(vr))
				printedKnown[id] = true
			}
			if os.Getenv("SIM_EMIT_KNOWN") != "" {
				// maintenance aid: write a fresh minimised replay of the known finding (never touches
				// known_findings.json)
				sort.Slice(vr, func(i, j int) bool { return len(vr[i].sched.Steps) < len(vr[j].sched.Steps) })
				rawPath := filepath.Join(outDir, fmt.Sprintf("known.%d.raw.json", vr[0].sched.Seed))
				writeJSON(rawPath, vr[0].sched)
				mjob := Job{Mode: "minimise", Engine: spec.Engine, Property: prop, Schedule: rawPath, Identity: id, Out: filepath.Join(scratch, "min.jsonl"), MinBudget: spec.MinBudget}
				lines, _, _ := runWorker(bin, mjob, filepath.Join(scratch, "min.job.json"), 15*time.Minute, 1)
				for _, l := range lines {
					if l.Kind == "min" && l.Schedule != nil {
						slug := strings.NewReplacer("|", "_", "/", "-", "(", "", ")", "").Replace(id)
						kp := filepath.Join(outDir, "known_"+slug+".min.json")
						writeJSON(kp, l.Schedule)
						fmt.Printf("  known-finding replay written: %s (%d steps)\n", kp, len(l.Schedule.Steps))
					}
				}
			}
			continue
		}
		newViol++
		// minimise the shortest failing schedule
		sort.Slice(vr, func(i, j int) bool { return len(vr[i].sched.Steps) < len(vr[j].sched.Steps) })
		first := vr[0]
		// one seed can show several identities: the file name carries the identity too
		slug := strings.NewReplacer("|", "_", "/", "-", "(", "", ")", "").Replace(strings.TrimPrefix(id, prop+"|"))
		rawPath := filepath.Join(outDir, fmt.Sprintf("%d.%s.raw.json", first.sched.Seed, slug))
		writeJSON(rawPath, first.sched)
		minPath := filepath.Join(outDir, fmt.Sprintf("%d.%s.min.json", first.sched.Seed, slug))
		mjob := Job{Mode: "minimise", Engine: spec.Engine, Property: prop, Schedule: rawPath, Identity: id, Out: filepath.Join(scratch, "min.jsonl"), MinBudget: spec.MinBudget}
		lines, _, killed := runWorker(bin, mjob, filepath.Join(scratch, "min.job.json"), 15*time.Minute, 1)
		var min *core.Schedule
		for _, l := range lines {
			if l.Kind == "min" {
				min = l.Schedule
			}
		}
		if min == nil || killed {
			// fall back to the raw schedule
			min = first.sched
			min.Expect = id
		}
		writeJSON(minPath, min)
		// replay the minimised file in a fresh process
		rjob := Job{Mode: "replay", Engine: spec.Engine, Property: prop, Schedule: minPath, Out: filepath.Join(scratch, "replaycheck.jsonl")}
		rl, _, _ := runWorker(bin, rjob, filepath.Join(scratch, "replaycheck.job.json"), 15*time.Minute, 1)
		reproduced := false
		for _, l := range rl {
			if l.Kind == "run" && l.Result != nil && l.Result.Has(id) {
				reproduced = true
			}
		}
		if !reproduced {
			harness = append(harness, fmt.Sprintf("violation %s (seed %d) did not reproduce on replay of %s", id, first.sched.Seed, minPath))
			continue
		}
		fmt.Printf("violation: %s\n  %s\n  seed=%d steps=%d (minimised from %d), seen in %d runs\n", id, first.v.Detail, first.sched.Seed, len(min.Steps), len(first.sched.Steps), len(vr))
		fmt.Printf("VIOLATION property=%s replay=%s\n", prop, minPath)
		code = 1
	}
	// a known finding that is listed but no longer fires is not an error; it is simply not printed.
	if len(a.deaths) > 0 {
		for _, d := range a.deaths {
			fmt.Fprintln(os.Stderr, "HARNESS:", d)
		}
		if code == 0 {
			code = 2
		}
	}
	if len(harness) > 0 {
		for _, h := range harness {
			fmt.Fprintln(os.Stderr, "HARNESS:", h)
		}
		if code == 0 {
			code = 2
		}
	}
	if a.runs == 0 && code == 0 {
		fmt.Fprintln(os.Stderr, "HARNESS: no run completed")
		code = 2
	}
	writeEvidence(prop, spec, tier, seedBase, a, time.Since(t0).Seconds(), newViol, workers)
	if code != 2 {
		os.RemoveAll(scratch) // kept after harness trouble: the worker logs are the diagnosis
	}
	fmt.Printf("%s %s: %d runs, %d steps, %d distinct cases, %d new violation identities, %.0fs\n", prop, tier, a.runs, a.steps, len(a.caseKeys), newViol, time.Since(t0).Seconds())
	return code
}

func (a *agg) add(l Line) {
	r := l.Result
	a.runs++
	a.steps += r.Steps
	a.simSeconds += r.SimSeconds
	for k, v := range r.Probes {
		a.probes[k] += v
	}
	for k, v := range r.Faults {
		a.faults[k] += v
	}
	for _, k := range r.CaseKeys {
		a.caseKeys[k] = true
	}
	if r.SchedFP != "" {
		a.schedFPs[r.SchedFP] = true
	}
	if r.StateFP != "" {
		a.logDigests[r.StateFP] = true
	}
	if l.Schedule != nil && len(r.Violations) == 0 && len(a.samples) < 3 {
		a.samples = append(a.samples, l.Schedule)
	}
	for _, v := range r.Violations {
		a.violations[v.Identity()] = append(a.violations[v.Identity()], violRun{v, l.Schedule})
	}
}

func writeJSON(path string, v interface{}) {
	b, _ := json.MarshalIndent(v, "", " ")
	if err := os.WriteFile(path, b, 0o644); err != nil {
		die(2, "HARNESS: %v", err)
	}
}

func writeEvidence(prop string, spec PropSpec, tier string, seed uint64, a *agg, wall float64, viol int, workers int) {
	keys := make([]string, 0, len(a.caseKeys))
	for k := range a.caseKeys {
		keys = append(keys, k)
	}
	sort.Strings(keys)
	samples := []interface{}{}
	for _, s := range a.samples {
		c := *s
		if len(c.Steps) > 40 {
			c.Steps = c.Steps[:40]
		}
		samples = append(samples, c)
	}
	if len(samples) == 0 {
		samples = append(samples, "no passing schedule was kept in this run")
	}
	caseSample := keys
	if len(caseSample) > 60 {
		caseSample = caseSample[:60]
	}
	perHour := 0.0
	if wall > 0 {
		perHour = float64(a.runs) / wall * 3600
	}
	ev := map[string]interface{}{
		"property_id": prop,
		"tier":        tier,
		"seed":        int64(seed),
		"level":       spec.Level,
		"wall_s":      wall,
		"violations":  viol,
		"assumptions": spec.Assumptions,
		"coverage": map[string]interface{}{
			"evaluations":                    a.runs,
			"distinct_nontrivial":            len(keys),
			"rule":                           spec.Rule,
			"samples":                        samples,
			"exhaustive":                     false,
			"steps_executed":                 a.steps,
			"runs_per_hour":                  perHour,
			"seeds":                          fmt.Sprintf("seed_i = %d*1000003 + i, i in [0,%d)", seed, a.runs),
			"workers":                        workers,
			"simulated_seconds":              a.simSeconds,
			"faults_fired":                   a.faults,
			"reach_probes":                   a.probes,
			"distinct_schedule_fingerprints": len(a.schedFPs),
			"distinct_state_fingerprints":    len(a.logDigests),
			"case_keys_sample":               caseSample,
			"real_vs_stub":                   spec.RealStub,
			"exhaustive_note":                spec.ExhaustiveNote,
		},
	}
	os.MkdirAll(filepath.Join(verifDir, "evidence"), 0o755)
	writeJSON(filepath.Join(verifDir, "evidence", prop+".json"), ev)
}
