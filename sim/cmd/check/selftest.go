package main

import (
	"fmt"
	"os"
	"path/filepath"
	"sort"
	"strings"
	"sync"
	"time"
)

// selftest: replay determinism. Every listed property's engine runs the same seeds in separate
// processes at GOMAXPROCS 1, 4 and 16; the event-log digests must be identical.
func selftest(bin string, long bool, workers int) int {
	n := 6
	if long {
		n = 40
	}
	outDir := filepath.Join(verifDir, "out", "selftest")
	os.MkdirAll(outDir, 0o755)
	props := make([]string, 0, len(Props))
	for p := range Props {
		props = append(props, p)
	}
	sort.Strings(props)
	if only := os.Getenv("SIM_SELFTEST_ONLY"); only != "" {
		props = strings.Split(only, ",")
	}
	bad := 0
	var mu sync.Mutex
	var wg sync.WaitGroup
	sem := make(chan struct{}, 5) // properties tested side by side (each is a handful of OS processes)
	for _, p := range props {
		wg.Add(1)
		sem <- struct{}{}
		go func(p string) {
			defer wg.Done()
			defer func() { <-sem }()
			b, report := selftestOne(bin, p, n, outDir)
			mu.Lock()
			bad += b
			fmt.Print(report)
			mu.Unlock()
		}(p)
	}
	wg.Wait()
	if bad > 0 {
		fmt.Printf("selftest FAILED (%d problems)\n", bad)
		return 2
	}
	fmt.Println("selftest ok")
	return 0
}

func selftestOne(bin, p string, n int, outDir string) (bad int, report string) {
	var sb strings.Builder
	printf := func(format string, a ...interface{}) { fmt.Fprintf(&sb, format, a...) }
	defer func() { report = sb.String() }()
	{
		spec := Props[p]
		badBefore := bad
		digests := map[uint64]string{}
		for _, gmp := range []int{1, 4, 16} {
			job := Job{Mode: "batch", Engine: spec.Engine, Property: p, Tier: "quick", SeedBase: 77, Start: 0, Stride: 1, MaxRuns: n,
				Out: filepath.Join(outDir, fmt.Sprintf("%s.g%d.jsonl", p, gmp))}
			lines, _, killed := runWorker(bin, job, filepath.Join(outDir, fmt.Sprintf("%s.g%d.job.json", p, gmp)), 20*time.Minute, gmp)
			if killed {
				printf("selftest %s: watchdog\n", p)
				bad++
			}
			got := 0
			for _, l := range lines {
				if l.Kind != "run" {
					continue
				}
				if l.Result == nil {
					printf("selftest %s seed %d: panic %s\n", p, l.Seed, l.Panic)
					bad++
					continue
				}
				got++
				d := fmt.Sprintf("%s/%d", l.Result.LogDigest, len(l.Result.Violations))
				if prev, ok := digests[l.Seed]; ok && prev != d {
					printf("selftest %s seed %d: NONDETERMINISTIC at GOMAXPROCS=%d (%s vs %s)\n", p, l.Seed, gmp, prev, d)
					bad++
				}
				digests[l.Seed] = d
			}
			if got != n {
				printf("selftest %s GOMAXPROCS=%d: %d of %d runs completed\n", p, gmp, got, n)
				bad++
			}
		}
		// isolation: the last seed of the batch, run alone in a fresh process, must behave exactly as
		// it did after n-1 other runs in the same process (process-global state must not leak)
		{
			job := Job{Mode: "batch", Engine: spec.Engine, Property: p, Tier: "quick", SeedBase: 77, Start: n - 1, Stride: 1, MaxRuns: 1,
				Out: filepath.Join(outDir, fmt.Sprintf("%s.alone.jsonl", p))}
			lines, _, _ := runWorker(bin, job, filepath.Join(outDir, fmt.Sprintf("%s.alone.job.json", p)), 20*time.Minute, 1)
			ok := false
			for _, l := range lines {
				if l.Kind == "run" && l.Result != nil {
					d := fmt.Sprintf("%s/%d", l.Result.LogDigest, len(l.Result.Violations))
					if digests[l.Seed] == d {
						ok = true
					} else {
						printf("selftest %s seed %d: run alone in a fresh process it differs from the same seed run after %d others (%s vs %s)\n", p, l.Seed, n-1, d, digests[l.Seed])
					}
				}
			}
			if !ok {
				bad++
			}
		}
		if bad == badBefore {
			printf("selftest %s: %d seeds x 3 processes identical, isolation ok\n", p, len(digests))
		}
	}
	return bad, ""
}
