// Package core holds what every engine shares: the single PRNG, schedules, results,
// step sources (generate vs replay) and delta-debugging minimisation.
package core

import (
	"crypto/sha256"
	"encoding/binary"
	"encoding/hex"
	"encoding/json"
	"fmt"
	"math/rand/v2"
	"os"
	"runtime/debug"
	"sort"
	"testing"
)

// T is the *testing.T of the worker process (testing/synctest needs one).
var T *testing.T

// ---------------------------------------------------------------- PRNG

// Rand is the one source of choices of a run. Sub-streams are derived by label so that adding a
// draw in one place does not shift every other choice.
type Rand struct {
	*rand.Rand
	seed uint64
}

func NewRand(seed uint64) *Rand {
	return &Rand{Rand: rand.New(rand.NewPCG(seed, 0x9e3779b97f4a7c15)), seed: seed}
}

func (r *Rand) Sub(label string) *Rand {
	h := sha256.Sum256([]byte(fmt.Sprintf("%d/%s", r.seed, label)))
	s := binary.LittleEndian.Uint64(h[:8])
	return &Rand{Rand: rand.New(rand.NewPCG(s, binary.LittleEndian.Uint64(h[8:16]))), seed: s}
}

func (r *Rand) Seed() uint64 { return r.seed }

// Intn is [0,n).
func (r *Rand) Intn(n int) int {
	if n <= 0 {
		return 0
	}
	return r.IntN(n)
}

// Range is [lo,hi].
func (r *Rand) Range(lo, hi int) int {
	if hi <= lo {
		return lo
	}
	return lo + r.IntN(hi-lo+1)
}

func (r *Rand) Chance(p float64) bool { return r.Float64() < p }

func (r *Rand) Bytes(n int) []byte {
	b := make([]byte, n)
	for i := range b {
		b[i] = byte(r.IntN(256))
	}
	return b
}

// Weighted picks an index with probability proportional to w[i].
func (r *Rand) Weighted(w []int) int {
	t := 0
	for _, x := range w {
		t += x
	}
	if t <= 0 {
		return 0
	}
	n := r.IntN(t)
	for i, x := range w {
		if n < x {
			return i
		}
		n -= x
	}
	return len(w) - 1
}

// ---------------------------------------------------------------- schedule / result

type Schedule struct {
	Engine   string            `json:"engine"`
	Property string            `json:"property"`
	Seed     uint64            `json:"seed"`
	Tier     string            `json:"tier"`
	Config   json.RawMessage   `json:"config,omitempty"`
	Steps    []json.RawMessage `json:"steps"`
	// Expect, in a replay file, is the violation identity the file reproduces.
	Expect string `json:"expect,omitempty"`
}

type Violation struct {
	Property string `json:"property"`
	Oracle   string `json:"oracle"`
	Subject  string `json:"subject"`
	Detail   string `json:"detail"`
	Step     int    `json:"step"`
}

func (v Violation) Identity() string { return v.Property + "|" + v.Oracle + "|" + v.Subject }

type Result struct {
	Seed       uint64         `json:"seed"`
	Steps      int            `json:"steps"`
	Violations []Violation    `json:"violations,omitempty"`
	CaseKeys   []string       `json:"case_keys,omitempty"`
	Probes     map[string]int `json:"probes,omitempty"`
	Faults     map[string]int `json:"faults,omitempty"`
	SimSeconds float64        `json:"sim_seconds,omitempty"`
	SchedFP    string         `json:"sched_fp,omitempty"`
	StateFP    string         `json:"state_fp,omitempty"`
	// Log is the deterministic event log digest (used by the determinism self-test).
	LogDigest string `json:"log_digest,omitempty"`
	keyset    map[string]bool
	hasher    []byte
}

func NewResult(seed uint64) *Result {
	return &Result{Seed: seed, Probes: map[string]int{}, Faults: map[string]int{}, keyset: map[string]bool{}}
}

func (r *Result) Probe(name string)         { r.Probes[name]++ }
func (r *Result) ProbeN(name string, n int) { r.Probes[name] += n }
func (r *Result) Fault(name string)         { r.Faults[name]++ }
func (r *Result) Case(key string) {
	if r.keyset == nil {
		r.keyset = map[string]bool{}
	}
	if !r.keyset[key] {
		r.keyset[key] = true
		r.CaseKeys = append(r.CaseKeys, key)
	}
}
func (r *Result) Violate(prop, oracle, subject, detail string, step int) {
	// one report per identity per run
	id := prop + "|" + oracle + "|" + subject
	for _, v := range r.Violations {
		if v.Identity() == id {
			return
		}
	}
	if len(detail) > 1500 {
		detail = detail[:1500] + "…"
	}
	r.Violations = append(r.Violations, Violation{prop, oracle, subject, detail, step})
}

// Logf feeds the deterministic event log (hash chain only; nothing is stored).
var traceFile *os.File

func (r *Result) Logf(format string, a ...interface{}) {
	if p := os.Getenv("SIM_TRACE"); p != "" {
		if traceFile == nil {
			traceFile, _ = os.Create(p)
		}
		fmt.Fprintf(traceFile, "%d "+format+"\n", append([]interface{}{r.Seed}, a...)...)
	}
	h := sha256.New()
	h.Write(r.hasher)
	fmt.Fprintf(h, format, a...)
	r.hasher = h.Sum(nil)
}

// Tracef writes to the SIM_TRACE file only (debugging aid; never part of the digest).
func (r *Result) Tracef(format string, a ...interface{}) {
	if traceFile != nil {
		fmt.Fprintf(traceFile, "%d "+format+"\n", append([]interface{}{r.Seed}, a...)...)
	}
}

func (r *Result) Finish() {
	r.LogDigest = hex.EncodeToString(r.hasher)
	sort.Strings(r.CaseKeys)
}

func (r *Result) Has(identity string) bool {
	for _, v := range r.Violations {
		if v.Identity() == identity {
			return true
		}
	}
	return false
}

func FP(parts ...string) string {
	h := sha256.New()
	for _, p := range parts {
		h.Write([]byte(p))
		h.Write([]byte{0})
	}
	return hex.EncodeToString(h.Sum(nil))[:16]
}

// ---------------------------------------------------------------- engines

// Engine runs one simulation. With replay == nil the steps are generated from the seed (the
// generator may look at simulated state); otherwise the given steps are executed literally and
// the PRNG is never consulted. The returned schedule is what was executed.
type Engine interface {
	Name() string
	Run(prop string, seed uint64, tier string, replay *Schedule) (*Schedule, *Result)
}

var Engines = map[string]Engine{}

func Register(e Engine) { Engines[e.Name()] = e }

// ---------------------------------------------------------------- minimisation (ddmin on steps)

// Minimise shrinks sched.Steps while a violation with the given identity persists.
// budget bounds the number of engine executions.
func Minimise(e Engine, sched *Schedule, identity string, budget int) (*Schedule, int) {
	cur := *sched
	runs := 0
	try := func(steps []json.RawMessage) bool {
		if runs >= budget {
			return false
		}
		runs++
		c := cur
		c.Steps = steps
		_, res := SafeRun(e, sched.Property, sched.Seed, sched.Tier, &c)
		return res != nil && res.Has(identity)
	}
	// truncate after the violating step first (cheap, big win)
	n := 2
	for len(cur.Steps) >= 2 && runs < budget {
		chunk := (len(cur.Steps) + n - 1) / n
		reduced := false
		for i := 0; i < len(cur.Steps); i += chunk {
			end := i + chunk
			if end > len(cur.Steps) {
				end = len(cur.Steps)
			}
			cand := append(append([]json.RawMessage{}, cur.Steps[:i]...), cur.Steps[end:]...)
			if len(cand) == 0 {
				continue
			}
			if try(cand) {
				cur.Steps = cand
				if n > 2 {
					n--
				}
				reduced = true
				break
			}
		}
		if !reduced {
			if chunk == 1 {
				break
			}
			n *= 2
			if n > len(cur.Steps) {
				n = len(cur.Steps)
			}
		}
	}
	cur.Expect = identity
	return &cur, runs
}

// SafeRun converts a panic inside an engine into a nil result with the panic recorded, so the
// orchestrator can classify it (harness error unless an oracle says otherwise).
var LastPanic string

func SafeRun(e Engine, prop string, seed uint64, tier string, replay *Schedule) (s *Schedule, r *Result) {
	defer func() {
		if p := recover(); p != nil {
			LastPanic = fmt.Sprint(p)
			if os.Getenv("SIM_STACK") != "" {
				fmt.Fprintf(os.Stderr, "panic: %v\n%s\n", p, debug.Stack())
			}
			s, r = nil, nil
		}
	}()
	return e.Run(prop, seed, tier, replay)
}

// ---------------------------------------------------------------- step helpers

func Enc(v interface{}) json.RawMessage {
	b, err := json.Marshal(v)
	if err != nil {
		panic(err)
	}
	return b
}

func Dec(raw json.RawMessage, v interface{}) {
	if err := json.Unmarshal(raw, v); err != nil {
		panic(fmt.Sprintf("bad step %s: %v", string(raw), err))
	}
}

func Hex(b []byte) string { return hex.EncodeToString(b) }
func UnHex(s string) []byte {
	b, err := hex.DecodeString(s)
	if err != nil {
		panic(err)
	}
	return b
}
