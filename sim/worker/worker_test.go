package worker

// The worker is a test binary because testing/synctest needs a *testing.T. One OS process runs
// one job: a batch of seeds, a replay, or a minimisation. All output goes to the job's out file
// as JSON lines; stdout is not parsed.

import (
	"bufio"
	"encoding/json"
	"fmt"
	"os"
	"testing"
	"time"

	"verif/sim/core"

	"verif/sim/chainsim"
	_ "verif/sim/kbsim"
	_ "verif/sim/storesim"
)

type Job struct {
	Mode          string  `json:"mode"` // batch | replay | minimise
	Engine        string  `json:"engine"`
	Property      string  `json:"property"`
	Tier          string  `json:"tier"`
	SeedBase      uint64  `json:"seed_base"`
	Start         int     `json:"start"`
	Stride        int     `json:"stride"`
	MaxRuns       int     `json:"max_runs"`
	BudgetS       float64 `json:"budget_s"`
	Out           string  `json:"out"`
	Schedule      string  `json:"schedule"` // path, for replay/minimise
	Identity      string  `json:"identity"`
	MinBudget     int     `json:"min_budget"`
	KeepSchedules int     `json:"keep_schedules"` // number of passing schedules to emit as samples
}

type Line struct {
	Kind     string         `json:"kind"` // start | run | min | end
	Seed     uint64         `json:"seed,omitempty"`
	Result   *core.Result   `json:"result,omitempty"`
	Schedule *core.Schedule `json:"schedule,omitempty"`
	Panic    string         `json:"panic,omitempty"`
	Runs     int            `json:"runs,omitempty"`
	WallS    float64        `json:"wall_s,omitempty"`
}

func SeedFor(base uint64, i int) uint64 { return base*1000003 + uint64(i) }

func TestWorker(t *testing.T) {
	path := os.Getenv("SIM_JOB")
	if path == "" {
		t.Skip("no SIM_JOB")
	}
	core.T = t
	raw, err := os.ReadFile(path)
	if err != nil {
		t.Fatal(err)
	}
	var job Job
	if err := json.Unmarshal(raw, &job); err != nil {
		t.Fatal(err)
	}
	eng := core.Engines[job.Engine]
	if eng == nil {
		t.Fatalf("unknown engine %q", job.Engine)
	}
	f, err := os.Create(job.Out)
	if err != nil {
		t.Fatal(err)
	}
	defer f.Close()
	w := bufio.NewWriter(f)
	emit := func(l Line) {
		b, _ := json.Marshal(l)
		w.Write(b)
		w.WriteByte('\n')
		w.Flush()
	}
	t0 := time.Now()
	switch job.Mode {
	case "batch":
		kept := 0
		runs := 0
		for i := job.Start; ; i += job.Stride {
			if job.MaxRuns > 0 && runs >= job.MaxRuns {
				break
			}
			if job.BudgetS > 0 && time.Since(t0).Seconds() > job.BudgetS && runs > 0 {
				break
			}
			seed := SeedFor(job.SeedBase, i)
			emit(Line{Kind: "start", Seed: seed})
			if n := os.Getenv("SIM_TEST_DIE_AT_RUN"); n != "" && fmt.Sprint(runs) == n && job.Start == 0 {
				// self-test of the orchestrator's handling of a dying worker
				fmt.Fprintln(os.Stderr, "panic: simulated worker death (SIM_TEST_DIE_AT_RUN)")
				os.Exit(2)
			}
			sched, res := core.SafeRun(eng, job.Property, seed, job.Tier, nil)
			l := Line{Kind: "run", Seed: seed, Result: res}
			if res == nil {
				l.Panic = core.LastPanic
			} else if len(res.Violations) > 0 || kept < job.KeepSchedules {
				l.Schedule = sched
				kept++
			}
			emit(l)
			runs++
		}
		emit(Line{Kind: "end", Runs: runs, WallS: time.Since(t0).Seconds()})
	case "replay":
		sched := readSchedule(t, job.Schedule)
		emit(Line{Kind: "start", Seed: sched.Seed})
		_, res := core.SafeRun(eng, sched.Property, sched.Seed, sched.Tier, sched)
		l := Line{Kind: "run", Seed: sched.Seed, Result: res}
		if res == nil {
			l.Panic = core.LastPanic
		}
		emit(l)
		emit(Line{Kind: "end", Runs: 1, WallS: time.Since(t0).Seconds()})
	case "minimise":
		sched := readSchedule(t, job.Schedule)
		emit(Line{Kind: "start", Seed: sched.Seed})
		budget := job.MinBudget
		if budget == 0 {
			budget = 400
		}
		min, runs := core.Minimise(eng, sched, job.Identity, budget)
		emit(Line{Kind: "min", Seed: sched.Seed, Schedule: min, Runs: runs})
		emit(Line{Kind: "end", Runs: runs, WallS: time.Since(t0).Seconds()})
	default:
		t.Fatalf("unknown mode %q", job.Mode)
	}
}

// TestImportChild is the child process of the C43 check.
func TestImportChild(t *testing.T) {
	path := os.Getenv("SIM_IMPORT")
	if path == "" {
		t.Skip("no SIM_IMPORT")
	}
	chainsim.ImportChild(path)
}

func readSchedule(t *testing.T, path string) *core.Schedule {
	raw, err := os.ReadFile(path)
	if err != nil {
		t.Fatal(err)
	}
	var s core.Schedule
	if err := json.Unmarshal(raw, &s); err != nil {
		t.Fatal(fmt.Errorf("schedule %s: %w", path, err))
	}
	return &s
}
