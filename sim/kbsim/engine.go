// Package kbsim drives the keybase (crypto/keys over crypto/keys/mintkey) on the simulated disk
// with generated operation histories, reopen, wrong passphrases and stored-byte / armor-byte
// faults, against an address -> (key, passphrase) map (property C40).
package kbsim

import (
	"bytes"
	"crypto/ed25519"
	"crypto/sha256"
	"encoding/hex"
	"fmt"
	"sort"
	"strings"
	"testing/cryptotest"

	"verif/sim/core"
	"verif/sim/simdb"

	pcrypto "github.com/pokt-network/pocket-core/crypto"
	"github.com/pokt-network/pocket-core/crypto/keys"
	"github.com/pokt-network/pocket-core/crypto/keys/mintkey"
	sdk "github.com/pokt-network/pocket-core/types"
)

const nPool = 5 // importable keys derived from the seed

var passphrases = []string{
	"", " ", "a", "A", "correct horse battery staple", "pässwörd✓", "パスワード", "p\x00q", "p",
	strings.Repeat("x", 72), strings.Repeat("x", 72) + "A", strings.Repeat("x", 72) + "B", "trailing ", "trailing",
	// pairs that are one key to an HMAC: zero padding up to the block size, hashing beyond it
	"p\x00", "\x00", strings.Repeat("y", 100), sha256String(strings.Repeat("y", 100)),
}

func sha256String(s string) string { h := sha256.Sum256([]byte(s)); return string(h[:]) }

// hmacEquivalent: two different passphrases that HMAC-SHA256 (the core of the key derivation)
// turns into the same key: keys longer than the 64-byte block are hashed first, shorter ones are
// padded with zero bytes.
func hmacEquivalent(a, b string) bool {
	norm := func(x string) string {
		k := []byte(x)
		if len(k) > 64 {
			h := sha256.Sum256(k)
			k = h[:]
		}
		return string(bytes.TrimRight(k, "\x00"))
	}
	return a != b && norm(a) == norm(b)
}

type Config struct {
	Steps int `json:"steps"`
}

type Step struct {
	Op    string `json:"op"`
	Slot  int    `json:"slot,omitempty"`  // which key (pool index, or created-key slot >= nPool)
	Pass  int    `json:"pass,omitempty"`  // passphrase supplied for decryption / authorisation
	Pass2 int    `json:"pass2,omitempty"` // passphrase for the new encryption
	Armor int    `json:"armor,omitempty"` // index into the exported armors
	N     int    `json:"n,omitempty"`     // fault: which stored item / position
	Off   int    `json:"off,omitempty"`
	Mask  int    `json:"mask,omitempty"`
}

// model of one key the keybase should hold
type entry struct {
	pub     []byte // raw public key
	priv    []byte // raw private key, nil for keys created inside the keybase until first exported
	pass    int
	present bool
	damaged bool // a stored byte of this record was flipped: only "never a wrong key" is judged
}

type armorRec struct {
	text    string
	slot    int
	pass    int
	damaged bool
}

type sim struct {
	res    *core.Result
	db     *simdb.DB
	kb     keys.Keybase
	pool   [][64]byte
	model  map[int]*entry // slot -> entry
	addrOf map[int]sdk.Address
	slotOf map[string]int // address hex -> slot
	armors []*armorRec
	next   int // next created-key slot
	step   int
}

type engine struct{}

func (engine) Name() string { return "kbsim" }

func init() { core.Register(engine{}) }

func (engine) Run(prop string, seed uint64, tier string, replay *core.Schedule) (*core.Schedule, *core.Result) {
	r := core.NewRand(seed)
	res := core.NewResult(seed)
	// every implicit use of crypto/rand (key generation, salts) becomes a function of the seed
	cryptotest.SetGlobalRandom(core.T, seed)
	cfg := &Config{}
	if replay != nil {
		core.Dec(replay.Config, cfg)
	} else {
		cfg.Steps = r.Sub("cfg").Range(12, 40)
	}
	s := &sim{res: res, db: simdb.New(), model: map[int]*entry{}, addrOf: map[int]sdk.Address{}, slotOf: map[string]int{}, next: nPool}
	s.kb = keys.NewWithDB(s.db)
	for i := 0; i < nPool; i++ {
		sd := sha256.Sum256([]byte(fmt.Sprintf("kbsim/%d/%d", seed, i)))
		var k [64]byte
		copy(k[:], ed25519.NewKeyFromSeed(sd[:]))
		s.pool = append(s.pool, k)
		pk := pcrypto.Ed25519PrivateKey(k)
		a := sdk.Address(pk.PublicKey().Address().Bytes())
		s.addrOf[i] = a
		s.slotOf[a.String()] = i
	}
	sched := &core.Schedule{Engine: "kbsim", Property: prop, Seed: seed, Tier: tier, Config: core.Enc(cfg)}
	if replay == nil && tier == "thorough" && seed%2 == 0 {
		// the thorough tier also runs long histories (the configuration records the length)
		cfg.Steps *= 3
	}
	n := cfg.Steps
	if replay != nil {
		n = len(replay.Steps)
	}
	g := r.Sub("steps")
	for i := 0; i < n; i++ {
		s.step = i
		st := &Step{}
		if replay != nil {
			core.Dec(replay.Steps[i], st)
		} else {
			st = s.gen(g)
		}
		sched.Steps = append(sched.Steps, core.Enc(st))
		out := s.guard(st)
		res.Logf("%d %s -> %s", i, string(sched.Steps[i]), out)
	}
	s.step = n
	s.checkList("end")
	res.Steps = n
	res.SchedFP = core.FP(fmt.Sprint(n), fmt.Sprint(seed))
	res.StateFP = core.FP(s.stateString())
	res.Finish()
	return sched, res
}

func (s *sim) violate(oracle, subject, detail string) {
	s.res.Violate("C40", oracle, subject, detail, s.step)
}

func (s *sim) guard(st *Step) (out string) {
	defer func() {
		if p := recover(); p != nil {
			msg := fmt.Sprint(p)
			if strings.HasPrefix(msg, "HARNESS") {
				panic(p)
			}
			s.violate("panic", st.Op, "panic: "+firstLine(msg))
			out = "panic"
		}
	}()
	return s.exec(st)
}

func firstLine(s string) string {
	if i := strings.IndexByte(s, '\n'); i >= 0 {
		return s[:i]
	}
	return s
}

// ---------------------------------------------------------------- generation

func (s *sim) knownSlots() []int {
	var out []int
	for k := range s.addrOf {
		out = append(out, k)
	}
	sort.Ints(out)
	return out
}

func (s *sim) gen(r *core.Rand) *Step {
	ops := []string{"create", "import_obj", "import_armor", "export_armor", "export_obj", "sign", "update", "delete", "unsafe_delete", "list", "get", "reopen", "flip", "armor_flip", "decrypt_armor", "coinbase", "set_coinbase"}
	w := []int{6, 14, 8, 10, 14, 10, 8, 6, 2, 6, 6, 6, 3, 3, 8, 7, 2}
	st := &Step{Op: ops[r.Weighted(w)]}
	slots := s.knownSlots()
	st.Slot = slots[r.Intn(len(slots))]
	// prefer keys that are present for operations that need one
	if e, ok := s.model[st.Slot]; (!ok || !e.present) && r.Chance(0.7) {
		var present []int
		for _, k := range slots {
			if e, ok := s.model[k]; ok && e.present {
				present = append(present, k)
			}
		}
		if len(present) > 0 && st.Op != "import_obj" {
			st.Slot = present[r.Intn(len(present))]
		}
	}
	right := 0
	if e, ok := s.model[st.Slot]; ok {
		right = e.pass
	}
	st.Pass = right
	if r.Chance(0.3) {
		st.Pass = s.nearMiss(r, right)
	}
	st.Pass2 = r.Intn(len(passphrases))
	if len(s.armors) > 0 {
		st.Armor = r.Intn(len(s.armors))
		if st.Op == "import_armor" || st.Op == "decrypt_armor" {
			st.Pass = s.armors[st.Armor].pass
			if r.Chance(0.3) {
				st.Pass = s.nearMiss(r, st.Pass)
			}
		}
	}
	st.N, st.Off, st.Mask = r.Intn(64), r.Intn(4096), 1<<uint(r.Intn(8))
	return st
}

// nearMiss picks another passphrase, biased to ones that differ little from the right one.
func (s *sim) nearMiss(r *core.Rand, right int) int {
	near := map[int][]int{0: {1, 15}, 1: {0}, 2: {3}, 3: {2}, 7: {8}, 8: {7, 14}, 9: {10, 11}, 10: {9, 11}, 11: {9, 10}, 12: {13}, 13: {12}, 14: {8}, 15: {0}, 16: {17}, 17: {16}}
	if c, ok := near[right]; ok && r.Chance(0.6) {
		return c[r.Intn(len(c))]
	}
	for {
		p := r.Intn(len(passphrases))
		if p != right {
			return p
		}
	}
}

// ---------------------------------------------------------------- execution and oracles

func errClass(err error) string {
	if err == nil {
		return "ok"
	}
	return "err"
}

func (s *sim) entryAt(slot int) *entry {
	e, ok := s.model[slot]
	if !ok {
		e = &entry{}
		s.model[slot] = e
	}
	return e
}

func (s *sim) state(e *entry) string {
	switch {
	case e.damaged:
		return "damaged"
	case e.present:
		return "present"
	}
	return "absent"
}

// judgeKey: a private key handed out for slot must be that slot's key, and only for its passphrase.
func (s *sim) judgeKey(op string, slot int, e *entry, pass int, priv pcrypto.PrivateKey) {
	raw := priv.RawBytes()
	pub := priv.PublicKey().RawBytes()
	if e.pub != nil && !bytes.Equal(pub, e.pub) {
		s.violate("wrong-key-returned", op, fmt.Sprintf("%s for slot %d returned a key whose public key is %x, stored key has %x", op, slot, pub, e.pub))
		return
	}
	if e.priv != nil && !bytes.Equal(raw, e.priv) {
		s.violate("wrong-key-returned", op, fmt.Sprintf("%s for slot %d returned private key bytes that differ from the stored key", op, slot))
		return
	}
	if pass != e.pass && hmacEquivalent(passphrases[pass], passphrases[e.pass]) {
		s.violate("key-returned-for-hmac-equivalent-passphrase", "stored-key", fmt.Sprintf("slot %d is protected with %q and was handed out for %q", slot, passphrases[e.pass], passphrases[pass]))
		return
	}
	if pass != e.pass {
		s.violate("key-returned-for-wrong-passphrase", op, fmt.Sprintf("%s for slot %d succeeded with passphrase %q, the key is protected with %q", op, slot, passphrases[pass], passphrases[e.pass]))
		return
	}
	if e.priv == nil {
		e.priv = raw // first sight of a key created inside the keybase
	}
}

func (s *sim) exec(st *Step) string {
	kb := s.kb
	addr := s.addrOf[st.Slot]
	e := s.entryAt(st.Slot)
	st.Pass %= len(passphrases)
	st.Pass2 %= len(passphrases)
	pass := passphrases[st.Pass]
	wrong := e.present && st.Pass != e.pass
	if wrong {
		s.res.Fault("wrong_passphrase")
	}
	caseKey := func(out string) {
		s.res.Case(fmt.Sprintf("%s/%s/pass=%v/%s", st.Op, s.state(e), !wrong, out))
	}
	// A supplied passphrase that differs from the right one only by what HMAC ignores is not run
	// through the generated operation (its outcome would move the keybase and the model apart):
	// a read-only probe decides whether the keybase takes it for the right one.
	if e.present && st.Pass != e.pass && hmacEquivalent(pass, passphrases[e.pass]) && st.Op != "decrypt_armor" && st.Op != "import_armor" && st.Op != "coinbase" && st.Op != "set_coinbase" && st.Op != "list" && st.Op != "get" && st.Op != "reopen" && st.Op != "flip" && st.Op != "armor_flip" && st.Op != "create" && st.Op != "import_obj" && st.Op != "unsafe_delete" {
		s.res.Probe("hmac_equivalent_passphrase_supplied")
		if priv, err := kb.ExportPrivateKeyObject(addr, pass); err == nil {
			raw := priv.PublicKey().RawBytes()
			if e.pub != nil && !bytes.Equal(raw, e.pub) {
				s.violate("wrong-key-returned", "export_obj", fmt.Sprintf("slot %d: another key came back for an equivalent passphrase", st.Slot))
			}
			s.violate("key-returned-for-hmac-equivalent-passphrase", "stored-key", fmt.Sprintf("slot %d is protected with %q and was handed out for %q: the two differ only by trailing zero bytes or by pre-hashing, which the HMAC inside the key derivation does not distinguish", st.Slot, passphrases[e.pass], pass))
		}
		return "probed-equivalent"
	}
	switch st.Op {
	case "coinbase":
		kp, err := kb.GetCoinbase()
		if err != nil {
			return "none"
		}
		slot := -1
		for k, a := range s.addrOf {
			if a.Equals(kp.GetAddress()) {
				slot = k
			}
		}
		if slot < 0 {
			for _, x := range s.model {
				if x.damaged {
					return "damaged-record" // a flipped stored byte may sit in the public key
				}
			}
			s.violate("unknown-key-returned", "coinbase", fmt.Sprintf("GetCoinbase returned %s, which was never put into the keybase", kp.GetAddress()))
			return "unknown"
		}
		ce := s.entryAt(slot)
		if !ce.present && !ce.damaged {
			s.violate("deleted-key-returned", "coinbase", fmt.Sprintf("GetCoinbase returned the key of slot %d (%s), which was deleted", slot, kp.GetAddress()))
			return "deleted"
		}
		if cur, gerr := kb.Get(kp.GetAddress()); gerr == nil && cur.PrivKeyArmor != kp.PrivKeyArmor && !ce.damaged {
			s.violate("replaced-record-returned", "coinbase", fmt.Sprintf("GetCoinbase returned for slot %d a record that is not the stored one (the key was re-encrypted since)", slot))
			return "stale"
		}
		s.res.Probe("coinbase_checked")
		return "ok"
	case "set_coinbase":
		if err := kb.SetCoinbase(addr); err == nil && !e.present && !e.damaged {
			s.violate("key-returned-for-absent-address", "set_coinbase", fmt.Sprintf("slot %d is not stored", st.Slot))
		}
		return "done"
	case "create":
		kp, err := kb.Create(passphrases[st.Pass2])
		if err != nil {
			s.violate("create-failed", "create", err.Error())
			return "err"
		}
		slot := s.next
		s.next++
		a := kp.GetAddress()
		s.addrOf[slot] = a
		s.slotOf[a.String()] = slot
		s.model[slot] = &entry{pub: kp.PublicKey.RawBytes(), pass: st.Pass2, present: true}
		s.res.Case("create/ok")
		return "ok " + a.String()
	case "import_obj":
		if st.Slot >= nPool {
			st.Slot %= nPool
			addr, e = s.addrOf[st.Slot], s.entryAt(st.Slot)
		}
		kp, err := kb.ImportPrivateKeyObject(s.pool[st.Slot], passphrases[st.Pass2])
		switch {
		case e.damaged:
			if err == nil {
				// the damaged record was replaced by a healthy one
				*e = entry{pub: kp.PublicKey.RawBytes(), priv: s.pool[st.Slot][:], pass: st.Pass2, present: true}
			}
		case e.present && err == nil:
			s.violate("import-overwrote-existing-key", "import_obj", fmt.Sprintf("slot %d was already stored; the import succeeded", st.Slot))
		case !e.present && err != nil:
			s.violate("import-refused", "import_obj", fmt.Sprintf("slot %d absent, import failed: %v", st.Slot, err))
		case !e.present:
			if !bytes.Equal(kp.GetAddress(), addr) {
				s.violate("import-address", "import_obj", "imported key pair has another address")
			}
			*e = entry{pub: kp.PublicKey.RawBytes(), priv: append([]byte{}, s.pool[st.Slot][:]...), pass: st.Pass2, present: true}
		}
		caseKey(errClass(err))
		return errClass(err)
	case "export_obj":
		priv, err := kb.ExportPrivateKeyObject(addr, pass)
		if err == nil {
			if !e.present && !e.damaged {
				s.violate("key-returned-for-absent-address", "export_obj", fmt.Sprintf("slot %d is not stored", st.Slot))
			} else {
				s.judgeKey("export_obj", st.Slot, e, st.Pass, priv)
			}
		} else if e.present && !e.damaged && !wrong {
			s.violate("right-passphrase-refused", "export_obj", fmt.Sprintf("slot %d passphrase %q: %v", st.Slot, pass, err))
		}
		caseKey(errClass(err))
		return errClass(err)
	case "sign":
		msg := []byte(fmt.Sprintf("message %d", s.step))
		sig, pub, err := kb.Sign(addr, pass, msg)
		if err == nil {
			switch {
			case !e.present && !e.damaged:
				s.violate("key-returned-for-absent-address", "sign", fmt.Sprintf("slot %d is not stored", st.Slot))
			case e.pub != nil && !bytes.Equal(pub.RawBytes(), e.pub):
				s.violate("wrong-key-returned", "sign", fmt.Sprintf("signed with public key %x, stored key has %x", pub.RawBytes(), e.pub))
			case st.Pass != e.pass:
				s.violate("key-returned-for-wrong-passphrase", "sign", fmt.Sprintf("slot %d signed with passphrase %q, protected with %q", st.Slot, pass, passphrases[e.pass]))
			case !ed25519.Verify(ed25519.PublicKey(e.pub), msg, sig):
				s.violate("signature-does-not-verify", "sign", fmt.Sprintf("slot %d", st.Slot))
			}
		} else if e.present && !e.damaged && !wrong {
			s.violate("right-passphrase-refused", "sign", fmt.Sprintf("slot %d: %v", st.Slot, err))
		}
		caseKey(errClass(err))
		return errClass(err)
	case "update":
		err := kb.Update(addr, pass, passphrases[st.Pass2])
		if err == nil {
			switch {
			case !e.present && !e.damaged:
				s.violate("update-of-absent-address", "update", fmt.Sprintf("slot %d is not stored", st.Slot))
			case st.Pass != e.pass:
				s.violate("key-returned-for-wrong-passphrase", "update", fmt.Sprintf("slot %d re-encrypted with old passphrase %q, protected with %q", st.Slot, pass, passphrases[e.pass]))
			default:
				e.pass, e.present = st.Pass2, true
				e.damaged = false // the record was rewritten from the decrypted key
			}
		} else if e.present && !e.damaged && !wrong {
			s.violate("right-passphrase-refused", "update", fmt.Sprintf("slot %d: %v", st.Slot, err))
		}
		caseKey(errClass(err))
		return errClass(err)
	case "delete":
		err := kb.Delete(addr, pass)
		if err == nil {
			switch {
			case !e.present && !e.damaged:
				s.violate("delete-of-absent-address", "delete", fmt.Sprintf("slot %d is not stored", st.Slot))
			case st.Pass != e.pass:
				s.violate("deleted-with-wrong-passphrase", "delete", fmt.Sprintf("slot %d deleted with passphrase %q, protected with %q", st.Slot, pass, passphrases[e.pass]))
			case !e.damaged:
				e.present = false
			}
		} else if e.present && !e.damaged && !wrong {
			s.violate("right-passphrase-refused", "delete", fmt.Sprintf("slot %d: %v", st.Slot, err))
		}
		if !e.damaged {
			s.checkGet(st.Slot, "after-delete")
		}
		caseKey(errClass(err))
		return errClass(err)
	case "unsafe_delete":
		err := kb.UnsafeDelete(addr)
		if !e.damaged {
			if err == nil && !e.present {
				s.violate("delete-of-absent-address", "unsafe_delete", fmt.Sprintf("slot %d is not stored", st.Slot))
			}
			if err != nil && e.present {
				s.violate("unsafe-delete-failed", "unsafe_delete", err.Error())
			}
			if err == nil {
				e.present = false
			}
			s.checkGet(st.Slot, "after-unsafe-delete")
		}
		caseKey(errClass(err))
		return errClass(err)
	case "get":
		s.checkGet(st.Slot, "get")
		caseKey("done")
		return "done"
	case "list":
		s.checkList("list")
		return "done"
	case "reopen":
		// the process ends and a new one opens the same disk
		s.kb = keys.NewWithDB(s.db)
		s.res.Fault("reopen")
		s.checkList("after-reopen")
		return "done"
	case "flip":
		key, ok := s.db.FlipByte(st.N, st.Off, byte(st.Mask))
		if !ok {
			return "nothing-stored"
		}
		s.res.Fault("stored_byte_flip")
		if slot, ok := s.slotOf[string(key)]; ok {
			en := s.entryAt(slot)
			en.damaged = true
		}
		return "flipped"
	case "export_armor":
		armor, err := kb.ExportPrivKeyEncryptedArmor(addr, pass, passphrases[st.Pass2], "hint")
		if err == nil {
			switch {
			case !e.present && !e.damaged:
				s.violate("key-returned-for-absent-address", "export_armor", fmt.Sprintf("slot %d is not stored", st.Slot))
			case st.Pass != e.pass:
				s.violate("key-returned-for-wrong-passphrase", "export_armor", fmt.Sprintf("slot %d exported with passphrase %q, protected with %q", st.Slot, pass, passphrases[e.pass]))
			default:
				s.armors = append(s.armors, &armorRec{text: armor, slot: st.Slot, pass: st.Pass2})
			}
		} else if e.present && !e.damaged && !wrong {
			s.violate("right-passphrase-refused", "export_armor", fmt.Sprintf("slot %d: %v", st.Slot, err))
		}
		caseKey(errClass(err))
		return errClass(err)
	case "decrypt_armor", "import_armor":
		if len(s.armors) == 0 {
			return "no-armor"
		}
		a := s.armors[st.Armor%len(s.armors)]
		src := s.entryAt(a.slot)
		awrong := st.Pass != a.pass
		if awrong {
			s.res.Fault("wrong_passphrase")
		}
		if awrong && !a.damaged && hmacEquivalent(pass, passphrases[a.pass]) {
			// (see the probe at the top of exec: decided by a read-only decryption)
			s.res.Probe("hmac_equivalent_passphrase_supplied")
			if _, err := mintkey.UnarmorDecryptPrivKey(a.text, pass); err == nil {
				s.violate("key-returned-for-hmac-equivalent-passphrase", "armor", fmt.Sprintf("an armor encrypted with %q decrypts with %q", passphrases[a.pass], pass))
			}
			return "probed-equivalent"
		}
		if st.Op == "decrypt_armor" {
			priv, err := mintkey.UnarmorDecryptPrivKey(a.text, pass)
			if err == nil {
				s.judgeArmorKey("decrypt_armor", a, src, st.Pass, priv)
			} else if !a.damaged && !awrong {
				s.violate("right-passphrase-refused", "decrypt_armor", fmt.Sprintf("armor of slot %d with passphrase %q: %v", a.slot, pass, err))
			}
			s.res.Case(fmt.Sprintf("decrypt_armor/damaged=%v/pass=%v/%s", a.damaged, !awrong, errClass(err)))
			return errClass(err)
		}
		tgt := s.entryAt(a.slot)
		kp, err := kb.ImportPrivKey(a.text, pass, passphrases[st.Pass2])
		if err == nil {
			switch {
			case awrong:
				s.violate("key-returned-for-wrong-passphrase", "import_armor", fmt.Sprintf("armor of slot %d imported with passphrase %q, protected with %q", a.slot, pass, passphrases[a.pass]))
			case src.pub != nil && !bytes.Equal(kp.PublicKey.RawBytes(), src.pub):
				s.violate("wrong-key-returned", "import_armor", fmt.Sprintf("armor of slot %d imported as public key %x", a.slot, kp.PublicKey.RawBytes()))
			case tgt.present && !tgt.damaged:
				s.violate("import-overwrote-existing-key", "import_armor", fmt.Sprintf("slot %d was already stored; the import succeeded", a.slot))
			default:
				priv := tgt.priv
				if priv == nil {
					priv = src.priv
				}
				*tgt = entry{pub: kp.PublicKey.RawBytes(), priv: priv, pass: st.Pass2, present: true}
			}
		} else if !a.damaged && !awrong && !tgt.present && !tgt.damaged {
			s.violate("import-refused", "import_armor", fmt.Sprintf("armor of absent slot %d with its passphrase: %v", a.slot, err))
		}
		s.res.Case(fmt.Sprintf("import_armor/damaged=%v/pass=%v/target=%s/%s", a.damaged, !awrong, s.state(tgt), errClass(err)))
		return errClass(err)
	case "armor_flip":
		if len(s.armors) == 0 {
			return "no-armor"
		}
		a := s.armors[st.Armor%len(s.armors)]
		b := []byte(a.text)
		b[st.Off%len(b)] ^= byte(st.Mask)
		a.text, a.damaged = string(b), true
		s.res.Fault("armor_byte_flip")
		return "flipped"
	}
	panic("HARNESS: unknown op " + st.Op)
}

func (s *sim) judgeArmorKey(op string, a *armorRec, src *entry, pass int, priv pcrypto.PrivateKey) {
	pub := priv.PublicKey().RawBytes()
	if src.pub != nil && !bytes.Equal(pub, src.pub) {
		s.violate("wrong-key-returned", op, fmt.Sprintf("armor of slot %d decrypted to public key %x, exported key has %x", a.slot, pub, src.pub))
		return
	}
	if src.priv != nil && !bytes.Equal(priv.RawBytes(), src.priv) {
		s.violate("wrong-key-returned", op, fmt.Sprintf("armor of slot %d decrypted to other private key bytes", a.slot))
		return
	}
	if pass != a.pass && hmacEquivalent(passphrases[pass], passphrases[a.pass]) {
		s.violate("key-returned-for-hmac-equivalent-passphrase", "armor", fmt.Sprintf("an armor encrypted with %q decrypts with %q", passphrases[a.pass], passphrases[pass]))
		return
	}
	if pass != a.pass {
		s.violate("key-returned-for-wrong-passphrase", op, fmt.Sprintf("armor of slot %d decrypted with passphrase %q, encrypted with %q", a.slot, passphrases[pass], passphrases[a.pass]))
	}
}

func (s *sim) checkGet(slot int, when string) {
	e := s.entryAt(slot)
	if e.damaged {
		return
	}
	kp, err := s.kb.Get(s.addrOf[slot])
	switch {
	case e.present && err != nil:
		s.violate("stored-key-not-found", when, fmt.Sprintf("slot %d: %v", slot, err))
	case !e.present && err == nil:
		s.violate("absent-key-found", when, fmt.Sprintf("slot %d is still retrievable", slot))
	case e.present && !bytes.Equal(kp.PublicKey.RawBytes(), e.pub):
		s.violate("wrong-key-returned", when, fmt.Sprintf("slot %d: Get returned public key %x", slot, kp.PublicKey.RawBytes()))
	}
}

func (s *sim) checkList(when string) {
	anyDamaged := false
	want := map[string]bool{}
	for slot, e := range s.model {
		if e.damaged {
			anyDamaged = true
		} else if e.present {
			want[hex.EncodeToString(s.addrOf[slot])] = true
		}
	}
	kps, err := s.kb.List()
	if err != nil {
		if !anyDamaged {
			s.violate("list-failed", when, err.Error())
		}
		s.res.Case("list/err/damaged=" + fmt.Sprint(anyDamaged))
		return
	}
	got := map[string]bool{}
	for _, kp := range kps {
		a := hex.EncodeToString(kp.GetAddress())
		if got[a] {
			s.violate("list-repeats-key", when, a)
		}
		got[a] = true
	}
	var missing, extra []string
	for a := range want {
		if !got[a] {
			missing = append(missing, a)
		}
	}
	if !anyDamaged {
		for a := range got {
			if !want[a] {
				extra = append(extra, a)
			}
		}
	}
	sort.Strings(missing)
	sort.Strings(extra)
	if len(missing) > 0 {
		s.violate("list-misses-stored-key", when, strings.Join(missing, ","))
	}
	if len(extra) > 0 {
		s.violate("list-shows-absent-key", when, strings.Join(extra, ","))
	}
	s.res.Case(fmt.Sprintf("list/ok/n=%d/damaged=%v", len(want), anyDamaged))
}

func (s *sim) stateString() string {
	var parts []string
	for slot, e := range s.model {
		parts = append(parts, fmt.Sprintf("%d:%s:%d", slot, s.state(e), e.pass))
	}
	sort.Strings(parts)
	return strings.Join(parts, ",")
}
