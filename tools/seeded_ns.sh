#!/bin/bash
# tools/seeded_ns.sh <seeded-id> <tier> <property>...
# Like seeded.sh, but leaves /repo and /verif alone: the patch is applied to a scratch worktree and
# the checks run from a scratch copy of /verif, both bind-mounted over /repo and /verif inside a
# private mount namespace. Several of these (and ordinary checks on the unchanged tree) can run at
# the same time. Logs: /verif/out/seeded/<id>.<property>.<tier>.log; replay files: /verif/out/seeded/<id>.<property>/
set -u
id=$1; tier=$2; shift 2
patch=/verif/seeded/$id/patch.diff
[ -f "$patch" ] || { echo "no $patch"; exit 2; }
wt=/tmp/sw_$id.$$; vc=/tmp/sv_$id.$$
git -C /repo worktree add --detach "$wt" HEAD >/dev/null 2>&1 || { echo "worktree failed"; exit 2; }
cleanup() { git -C /repo worktree remove --force "$wt" >/dev/null 2>&1; rm -rf "$vc"; }
trap cleanup EXIT
git -C "$wt" apply "$patch" || { echo "patch does not apply"; exit 2; }
mkdir -p "$vc" /verif/out/seeded
rsync -a --exclude out --exclude .git --exclude bin --exclude evidence /verif/ "$vc"/
for p in "$@"; do
  log=/verif/out/seeded/$id.$p.$tier.log
  unshare -m bash -c "mount --bind '$wt' /repo && mount --bind '$vc' /verif && cd /verif && ./check $p --tier $tier" > "$log" 2>&1
  rc=$?
  mkdir -p /verif/out/seeded/$id.$p && cp "$vc"/out/$p/*.min.json /verif/out/seeded/$id.$p/ 2>/dev/null
  echo "$id $p exit=$rc $(grep -c '^VIOLATION' $log) violation lines; $(grep '^violation:' $log | head -3 | cut -c1-160 | tr '\n' ';')"
done
