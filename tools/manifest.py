#!/usr/bin/env python3
"""Regenerates /verif/MANIFEST.json from the orchestrator's property table (`check list`)."""
import json, subprocess, os, sys
os.chdir('/verif')
env = dict(os.environ, GOFLAGS='-mod=mod', GOPROXY='off', GOSUMDB='off', GOTOOLCHAIN='local')
subprocess.check_call(['go1.26.8', 'build', '-o', '/verif/bin/check.list', './cmd/check'], cwd='/verif/sim', env=env)
props = json.loads(subprocess.check_output(['/verif/bin/check.list', 'list']))
os.remove('/verif/bin/check.list')
all_ids = [json.loads(l)['id'] for l in open('properties.jsonl')]

LEVEL_TEXT = json.load(open('tools/level_text.json'))
NA = json.load(open('tools/not_applicable.json'))

checks = []
for pid in all_ids:
    if pid not in props:
        continue
    sp = props[pid]
    lt = LEVEL_TEXT.get(pid, {})
    checks.append({
        "property_id": pid,
        "quick_cmd": f"./check {pid} --tier quick",
        "thorough_cmd": f"./check {pid} --tier thorough",
        "evidence_file": f"/verif/evidence/{pid}.json",
        "replay_cmd_template": f"./check {pid} --replay {{path}}",
        "engine": sp["Engine"],
        "level_claimed": {
            "category": sp["Level"],
            "text": lt.get("text", sp["Rule"]),
            "design_ref": lt.get("design_ref", "DESIGN.md §7 " + pid),
        },
        "level_note": lt.get("note", "; ".join(sp.get("Assumptions") or [])),
        "technique": lt.get("technique", "deterministic simulation with fault injection: seeded search over generated histories against a reference model"),
    })
na = []
for pid in all_ids:
    if pid in props:
        continue
    if pid not in NA:
        sys.exit(f"property {pid} is neither claimed nor listed in tools/not_applicable.json")
    na.append({"property_id": pid, "reason": NA[pid]})

hooks = json.load(open('tools/hooks.json'))
manifest = {
    "version": 1,
    "setup_cmd": "cd /verif && ./build.sh",
    "hooks": hooks,
    "engines": [
        {"name": "storesim", "path": "/verif/sim/storesim", "serves_properties": [c["property_id"] for c in checks if c["engine"] == "storesim"], "kind_free_text": "storage stack alone over the simulated disk (simdb): generated operation histories, reopen, crash images, rollback, historical views, proofs; map reference models"},
        {"name": "chainsim", "path": "/verif/sim/chainsim", "serves_properties": [c["property_id"] for c in checks if c["engine"] == "chainsim"], "kind_free_text": "whole pocket-core application driven block by block by a seeded Tendermint stand-in, with clients, faults, replicas and phase-diff oracles"},
        {"name": "relaysim", "path": "/verif/sim/relaysim", "serves_properties": [c["property_id"] for c in checks if c["engine"] == "relaysim"], "kind_free_text": "one servicer, concurrent relay goroutines released one at a time at verif-tagged yield points by a seeded scheduler"},
        {"name": "kbsim", "path": "/verif/sim/kbsim", "serves_properties": [c["property_id"] for c in checks if c["engine"] == "kbsim"], "kind_free_text": "keybase over simdb with reopen, wrong-passphrase and stored-byte-flip faults"},
    ],
    "checks": checks,
    "not_applicable": na,
    "notes": "All checks are built from one Go module (/verif/sim, go1.26.8, build tag verif) and rebuilt against /repo's working tree on every invocation. Exit codes: 0 held / 1 VIOLATION / 2 harness trouble. Known findings: /verif/known_findings.json.",
}
manifest["engines"] = [e for e in manifest["engines"] if e["serves_properties"]]
json.dump(manifest, open('MANIFEST.json', 'w'), indent=1)
print("claimed", len(checks), "not applicable", len(na))
