#!/bin/bash
# tools/seeded.sh <seeded-id> <tier> <property>...
# Applies /verif/seeded/<seeded-id>/patch.diff to /repo, runs the named checks, restores /repo.
# Output: one line per check "<seeded-id> <property> exit=<n> <verdict line>"; logs in out/seeded/.
set -u
id=$1; tier=$2; shift 2
cd /verif
patch=/verif/seeded/$id/patch.diff
[ -f "$patch" ] || { echo "no $patch"; exit 2; }
if [ -n "$(git -C /repo status --porcelain)" ]; then echo "/repo is not clean"; exit 2; fi
git -C /repo apply "$patch" || { echo "patch does not apply"; exit 2; }
trap 'git -C /repo checkout -- . ; git -C /repo clean -fdq' EXIT
mkdir -p out/seeded
for p in "$@"; do
  log=out/seeded/$id.$p.$tier.log
  ./check $p --tier $tier > $log 2>&1
  rc=$?
  echo "$id $p exit=$rc $(grep -c '^VIOLATION' $log) violation lines; $(grep '^violation:' $log | head -3 | cut -c1-160 | tr '\n' ';')"
done
