#!/bin/bash
# Runs the thorough tier of every claimed check on the current tree, one after the other.
# Usage: tools/thorough_all.sh [ids...]   (default: all, in id order); log: out/thorough/<id>.log
cd /verif
mkdir -p out/thorough
ids="$@"
if [ -z "$ids" ]; then ids=$(./check list | python3 -c "import sys,json; print(' '.join(sorted(json.load(sys.stdin).keys())))"); fi
for p in $ids; do
  ./check $p --tier thorough ${BUDGET:+--budget $BUDGET} > out/thorough/$p.log 2>&1
  echo "$p exit=$? $(tail -1 out/thorough/$p.log)" | tee -a out/thorough/SUMMARY.txt
done
