#!/bin/bash
# Runs the quick tier of every claimed check on the current tree, one after the other.
# Usage: tools/quick_all.sh [ids...]; log: out/quick/<id>.log, summary out/quick/SUMMARY.txt
cd /verif
mkdir -p out/quick
: > out/quick/SUMMARY.txt
ids="$@"
if [ -z "$ids" ]; then ids=$(./check list | python3 -c "import sys,json; print(' '.join(sorted(json.load(sys.stdin).keys())))"); fi
for p in $ids; do
  ./check $p --tier quick > out/quick/$p.log 2>&1
  echo "$p exit=$? $(tail -1 out/quick/$p.log)" | tee -a out/quick/SUMMARY.txt
done
