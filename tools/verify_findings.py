#!/usr/bin/env python3
# Replays every known-finding replay file and reports whether its identity still reproduces.
import json, subprocess, os, sys, re
k = json.load(open('/verif/known_findings.json'))
bad = 0
for f in k['findings']:
    r = f['replay']
    if not os.path.exists('/verif/' + r):
        print('MISSING', f['identity'], r); bad += 1; continue
    out = subprocess.run(['./check', f['property'], '--replay', '/verif/' + r], capture_output=True, text=True, cwd='/verif')
    ok = ('violation ' + f['identity']) in out.stdout
    print('REPRODUCES' if ok else 'NO', f['identity'], r)
    bad += 0 if ok else 1
for line in k.get('fixed', []):
    m = re.search(r'property=(C\d+) .*replay: (findings/[^ ;]+\.json)', line)
    if not m:
        continue
    prop, r = m.group(1), m.group(2)
    if not os.path.exists('/verif/' + r):
        print('MISSING', prop, r); bad += 1; continue
    out = subprocess.run(['./check', prop, '--replay', '/verif/' + r], capture_output=True, text=True, cwd='/verif')
    quiet = 'no violation reproduced' in out.stdout
    print('FIXED-STAYS-FIXED' if quiet else 'FIXED-BUT-REPRODUCES', prop, r)
    bad += 0 if quiet else 1
sys.exit(1 if bad else 0)
