#!/usr/bin/env python3
# Replays every known-finding replay file and reports whether its identity still reproduces.
import json, subprocess, os, sys
k = json.load(open('/verif/known_findings.json'))
bad = 0
for f in k['findings']:
    r = f['replay']
    if not os.path.exists('/verif/' + r):
        print('MISSING', f['identity'], r); bad += 1; continue
    out = subprocess.run(['./check', f['property'], '--replay', '/verif/' + r], capture_output=True, text=True, cwd='/verif')
    ok = ('violation ' + f['identity']) in out.stdout
    print('REPRODUCES' if ok else 'NO', f['identity'], r)
    bad += 0 if ok else 1
sys.exit(1 if bad else 0)
