#!/bin/bash
# setup: build the orchestrator and the simulation worker from files on disk (offline), then run
# the short determinism self-test.
set -eu
cd /verif/sim
export GOFLAGS=-mod=mod GOPROXY=off GOSUMDB=off GOTOOLCHAIN=local CGO_ENABLED=0
mkdir -p /verif/bin /verif/out /verif/evidence
go1.26.8 build -o /verif/bin/check.setup ./cmd/check
go1.26.8 test -c -tags verif -o /verif/bin/sim.setup.test ./worker
rm -f /verif/bin/check.setup /verif/bin/sim.setup.test
cd /verif && ./check selftest
