package nodes

import (
	"testing"

	sdk "github.com/pokt-network/pocket-core/types"
	"github.com/pokt-network/pocket-core/x/auth"
	"github.com/pokt-network/pocket-core/x/nodes/types"
)

// C17: a genesis whose supply matches its balances (here: the genesis produced by ExportGenesis of a
// healthy chain) does NOT yield a state whose supply matches its balances: x/nodes InitGenesis adds the
// staked tokens to the supply unconditionally, although the exported auth genesis already carries
// the staking pool module account (with its coins) and a supply that already includes them.
func TestZZAudit_C17_GenesisWithPoolAccountInflatesSupplyTwice(t *testing.T) {
	defer zzAllFeaturesOn()()

	// ---- chain A: a healthy running chain
	a := zzSetup(t)
	op, out := zzNewKey(), zzNewKey()
	a.fund(op.addr, 100000000)
	a.fund(out.addr, 5000000)
	res := a.deliver(types.MsgStake{PublicKey: op.pub, Chains: []string{"0001"}, Value: sdk.NewInt(30000000),
		ServiceUrl: "https://x.y:443", Output: out.addr}, op.pub)
	if !res.IsOK() {
		t.Fatalf("stake failed: %s", res.Log)
	}
	if s := a.checkC17(); s != "" {
		t.Fatalf("chain A unexpectedly broken: %s", s)
	}
	if s := a.checkC19(); s != "" {
		t.Fatalf("chain A unexpectedly broken: %s", s)
	}
	t.Logf("chain A: supply=%s sum(balances)=%s pool=%s",
		a.ak.GetSupply(a.ctx).GetTotal(), a.sumBalances(), a.k.GetStakedTokens(a.ctx))

	// ---- export (what `pocket util export-genesis-for-reset` / ExportAppState do module by module)
	authGen := auth.ExportGenesis(a.ctx, a.ak)
	posGen := ExportGenesis(a.ctx, a.k)
	// the exported genesis is self-consistent: supply == sum of account balances
	sum := sdk.NewCoins()
	for _, acc := range authGen.Accounts {
		sum = sum.Add(acc.GetCoins())
	}
	t.Logf("exported genesis: supply=%s sum(accounts)=%s", authGen.Supply, sum)
	if !authGen.Supply.IsEqual(sum) {
		t.Fatalf("exported genesis is not self consistent")
	}

	// ---- chain B: InitGenesis in the application's order (auth, then pos)
	b := zzSetup(t)
	// zzSetup created empty module accounts and a zero supply; nothing else is in B
	auth.InitGenesis(b.ctx, b.ak, authGen)
	InitGenesis(b.ctx, b.k, b.ak, posGen)
	supply := b.ak.GetSupply(b.ctx).GetTotal().AmountOf(sdk.DefaultStakeDenom)
	bal := b.sumBalances()
	t.Logf("chain B after InitGenesis: supply=%s sum(balances)=%s pool=%s", supply, bal, b.k.GetStakedTokens(b.ctx))
	if !supply.Equal(bal) {
		t.Errorf("C17 VIOLATED: after InitGenesis of a self-consistent genesis, supply %s != sum of balances %s (difference %s = staked tokens counted twice)",
			supply, bal, supply.Sub(bal))
	}
}
