package nodes

import (
	"testing"

	sdk "github.com/pokt-network/pocket-core/types"
	"github.com/pokt-network/pocket-core/x/auth"
	govKeeper "github.com/pokt-network/pocket-core/x/gov/keeper"
	govTypes "github.com/pokt-network/pocket-core/x/gov/types"
	"github.com/pokt-network/pocket-core/x/nodes/keeper"
	"github.com/pokt-network/pocket-core/x/nodes/types"
)

// C26: the governance path (MsgChangeParam -> gov ModifyParam) stores pos/ProposerPercentage and
// pos/DAOAllocation without the "sum <= 100" validation that Params.Validate() applies at genesis.
// With DAO=10 and Proposer=95 the fee collector's portion of a relay reward is larger than the
// reward, the servicer's portion is negative and is silently dropped, and the chain mints MORE
// than the computed relay reward.
func TestZZAudit_C26_AllocationsAbove100MintMoreThanReward(t *testing.T) {
	defer zzAllFeaturesOn()()
	e := zzSetup(t)

	// a gov keeper wired to the same param store / "pos" subspace as the nodes keeper (as in app.go)
	posSub := sdk.NewSubspace(types.DefaultParamspace).WithKeyTable(keeper.ParamKeyTable())
	gk := govKeeper.NewKeeper(e.k.Cdc, sdk.ParamsKey, sdk.ParamsTKey, govTypes.DefaultParamspace, e.ak, posSub)
	owner := zzNewKey()
	acl := govTypes.ACL(make([]govTypes.ACLPair, 0))
	acl.SetOwner("pos/ProposerPercentage", owner.addr)
	acl.SetOwner("pos/DAOAllocation", owner.addr)
	gp := govTypes.DefaultParams()
	gp.ACL = acl
	gk.SetParams(e.ctx, gp)

	val, _ := e.k.Cdc.MarshalJSON(int64(95)) // same encoding the gov tx builder uses (amino JSON: "95")
	res := gk.ModifyParam(e.ctx, "pos/ProposerPercentage", val, owner.addr)
	t.Logf("gov change pos/ProposerPercentage=95 accepted=%v ; now DAOAllocation=%d ProposerAllocation=%d (sum %d)",
		res.IsOK(), e.k.DAOAllocation(e.ctx), e.k.ProposerAllocation(e.ctx), e.k.DAOAllocation(e.ctx)+e.k.ProposerAllocation(e.ctx))
	if !res.IsOK() || e.k.ProposerAllocation(e.ctx) != 95 {
		t.Fatalf("param change did not go through: %s", res.Log)
	}

	op, out := zzNewKey(), zzNewKey()
	e.fund(op.addr, 100000000)
	r := e.deliver(types.MsgStake{PublicKey: op.pub, Chains: []string{"0001"}, Value: sdk.NewInt(30000000),
		ServiceUrl: "https://x.y:443", Output: out.addr}, op.pub)
	if !r.IsOK() {
		t.Fatalf("stake refused: %s", r.Log)
	}

	relays := sdk.NewInt(1000)
	v, _ := e.k.GetValidator(e.ctx, op.addr)
	toNode, toFee := e.k.CalculateRelayReward(e.ctx, "0001", relays, v.StakedTokens)
	reward := toNode.Add(toFee)
	s0 := e.ak.GetSupply(e.ctx).GetTotal().AmountOf(sdk.DefaultStakeDenom)
	f0 := e.ak.GetCoins(e.ctx, e.ak.GetModuleAddress(auth.FeeCollectorName)).AmountOf(sdk.DefaultStakeDenom)
	o0 := e.ak.GetCoins(e.ctx, out.addr).AmountOf(sdk.DefaultStakeDenom)
	p0 := e.ak.GetCoins(e.ctx, op.addr).AmountOf(sdk.DefaultStakeDenom)
	e.k.RewardForRelaysPerChain(e.ctx, "0001", relays, op.addr)
	minted := e.ak.GetSupply(e.ctx).GetTotal().AmountOf(sdk.DefaultStakeDenom).Sub(s0)
	fee := e.ak.GetCoins(e.ctx, e.ak.GetModuleAddress(auth.FeeCollectorName)).AmountOf(sdk.DefaultStakeDenom).Sub(f0)
	outGot := e.ak.GetCoins(e.ctx, out.addr).AmountOf(sdk.DefaultStakeDenom).Sub(o0)
	opGot := e.ak.GetCoins(e.ctx, op.addr).AmountOf(sdk.DefaultStakeDenom).Sub(p0)
	t.Logf("computed relay reward=%s (servicer portion %s + fee collector portion %s)", reward, toNode, toFee)
	t.Logf("minted=%s : fee collector +%s, output address +%s, operator +%s", minted, fee, outGot, opGot)
	if !minted.Equal(reward) {
		t.Errorf("C26 VIOLATED: coins minted (%s) != computed relay reward (%s); servicer portion is %s", minted, reward, toNode)
	}
	if s := e.checkC17(); s != "" {
		t.Errorf("%s", s)
	}
}
