package nodes

import (
	"encoding/hex"
	"fmt"
	"math/rand"
	"sort"
	"testing"
	"time"

	sdk "github.com/pokt-network/pocket-core/types"
	"github.com/pokt-network/pocket-core/x/nodes/keeper"
	"github.com/pokt-network/pocket-core/x/nodes/types"
	abci "github.com/tendermint/tendermint/abci/types"
	tmtypes "github.com/tendermint/tendermint/types"
)


func zzRunSeed(t *testing.T, seed int64, blocks int, withModuleParties bool, stopOnDup bool) (violation string, trace []string) {
	defer zzAllFeaturesOn()()
	e := zzSetup(t)
	r := rand.New(rand.NewSource(seed))
	{
		p := e.k.GetParams(e.ctx)
		p.UnstakingTime = []time.Duration{0, 2 * time.Minute, 10 * time.Minute}[r.Intn(3)]
		p.SlashFractionDowntime = []sdk.BigDec{sdk.NewDecWithPrec(1, 2), sdk.NewDecWithPrec(6, 1)}[r.Intn(2)]
		p.SlashFractionDoubleSign = []sdk.BigDec{sdk.NewDecWithPrec(5, 2), sdk.NewDec(1)}[r.Intn(2)]
		p.MaxJailedBlocks = []int64{3, 12}[r.Intn(2)]
		e.k.SetParams(e.ctx, p)
	}
	nOps, nOuts := 8, 4
	var ops, outs []zzKey
	for i := 0; i < nOps; i++ {
		k := zzNewKey()
		ops = append(ops, k)
		e.fund(k.addr, 1000000000)
	}
	for i := 0; i < nOuts; i++ {
		k := zzNewKey()
		outs = append(outs, k)
		e.fund(k.addr, 1000000000)
	}
	poolAddr := e.ak.GetModuleAddress(types.StakedPoolName)
	chainsPool := []string{"0001", "0002", "0021", "0a0b", "ffff"}
	logf := func(f string, a ...interface{}) {
		trace = append(trace, fmt.Sprintf("h=%d ", e.ctx.BlockHeight())+fmt.Sprintf(f, a...))
	}
	tm := map[string]int64{}
	jailedAt := map[string]time.Time{}
	editSince := map[string]bool{}
	tmHist := []map[string]int64{} // set after EndBlock of each height
	pkToAddr := map[string]sdk.Address{}
	for _, o := range ops {
		pkToAddr[hex.EncodeToString(o.pub.RawBytes())] = o.addr
	}
	check := func(where string) bool {
		for _, f := range []func() string{e.checkC17, e.checkC19, e.checkC21, func() string { return e.checkC22(tm) }} {
			if s := f(); s != "" {
				if !stopOnDup && len(s) > 8 && s[:8] == "C21(dup)" {
					continue
				}
				violation = where + ": " + s
				return true
			}
		}
		return false
	}
	randChains := func() []string {
		n := 1 + r.Intn(3)
		m := map[string]bool{}
		var out []string
		for len(out) < n {
			c := chainsPool[r.Intn(len(chainsPool))]
			if !m[c] {
				m[c] = true
				out = append(out, c)
			}
		}
		return out
	}
	signerFor := func(op zzKey) (zzKey, bool) {
		// operator, or current output address if we hold that key
		v, found := e.k.GetValidator(e.ctx, op.addr)
		if found && v.OutputAddress != nil && r.Intn(2) == 0 {
			for _, o := range outs {
				if o.addr.Equals(v.OutputAddress) {
					return o, true
				}
			}
		}
		return op, true
	}
	for b := 0; b < blocks; b++ {
		h := e.ctx.BlockHeight()
		// ---- BeginBlock
		var votes []abci.VoteInfo
		var prevSet map[string]int64
		if len(tmHist) >= 2 {
			prevSet = tmHist[len(tmHist)-2]
		}
		var pks []string
		for pk := range prevSet {
			pks = append(pks, pk)
		}
		sort.Strings(pks)
		var proposer sdk.Address
		for _, pk := range pks {
			addr := pkToAddr[pk]
			signed := r.Intn(100) < 70
			if proposer == nil {
				proposer = addr
			}
			votes = append(votes, abci.VoteInfo{Validator: abci.Validator{Address: addr, Power: prevSet[pk]}, SignedLastBlock: signed})
		}
		req := abci.RequestBeginBlock{Header: abci.Header{ProposerAddress: proposer}, LastCommitInfo: abci.LastCommitInfo{Votes: votes}}
		if len(pks) > 0 && r.Intn(12) == 0 {
			pk := pks[r.Intn(len(pks))]
			req.ByzantineValidators = []abci.Evidence{{Type: tmtypes.ABCIEvidenceTypeDuplicateVote, Validator: abci.Validator{Address: pkToAddr[pk], Power: prevSet[pk]}, Height: h - 1, Time: e.ctx.BlockHeader().Time}}
			logf("double-sign evidence for %s", pkToAddr[pk])
		}
		keeper.BeginBlocker(e.ctx, req, e.k)
		for _, o := range ops {
			v, f := e.k.GetValidator(e.ctx, o.addr)
			if !f {
				delete(jailedAt, o.addr.String())
				continue
			}
			info, f2 := e.k.GetValidatorSigningInfo(e.ctx, o.addr)
			if f2 && v.Jailed && info.JailedUntil.After(jailedAt[o.addr.String()]) {
				jailedAt[o.addr.String()] = info.JailedUntil
				editSince[o.addr.String()] = false
			}
		}
		// ---- txs
		ntx := r.Intn(4)
		for i := 0; i < ntx; i++ {
			op := ops[r.Intn(len(ops))]
			switch c := r.Intn(100); {
			case c < 35: // stake / edit stake
				cur, found := e.k.GetValidator(e.ctx, op.addr)
				amt := int64(15000000 + r.Intn(4)*15000000 + r.Intn(3)*500000)
				if found && r.Intn(3) > 0 {
					amt = cur.StakedTokens.Int64() + int64(r.Intn(3))*15000000
				}
				var out sdk.Address
				if found && cur.OutputAddress != nil && r.Intn(4) > 0 {
					out = cur.OutputAddress
				} else {
					out = outs[r.Intn(len(outs))].addr
					if r.Intn(4) == 0 {
						out = op.addr
					}
					if withModuleParties && r.Intn(5) == 0 {
						out = poolAddr
					}
				}
				var del map[string]uint32
				if r.Intn(3) == 0 {
					del = map[string]uint32{outs[r.Intn(len(outs))].addr.String(): uint32(1 + r.Intn(60))}
					if withModuleParties && r.Intn(3) == 0 {
						del[poolAddr.String()] = 10
					}
				} else if found {
					del = cur.RewardDelegators
				}
				sg, _ := signerFor(op)
				msg := types.MsgStake{PublicKey: op.pub, Chains: randChains(), Value: sdk.NewInt(amt), ServiceUrl: "https://x.y:443", Output: out, RewardDelegators: del}
				wasWaiting := e.k.IsWaitingValidator(e.ctx, op.addr)
				res := e.deliver(msg, sg.pub)
				if res.IsOK() {
					editSince[op.addr.String()] = true
				}
				if res.IsOK() && found && cur.IsStaked() {
					nv, _ := e.k.GetValidator(e.ctx, op.addr)
					bad := ""
					switch {
					case nv.StakedTokens.LT(cur.StakedTokens):
						bad = "stake lowered"
					case !nv.Address.Equals(cur.Address) || !nv.PublicKey.Equals(cur.PublicKey):
						bad = "address/pubkey changed"
					case nv.Jailed != cur.Jailed || nv.Status != cur.Status:
						bad = "jailed/status changed"
					case !nv.OutputAddress.Equals(cur.OutputAddress) && cur.OutputAddress != nil && !sg.addr.Equals(cur.OutputAddress):
						bad = "output changed by non-output signer"
					case !sdk.CompareStringMaps(nv.RewardDelegators, cur.RewardDelegators) && !sg.addr.Equals(op.addr):
						bad = "delegators changed by non-operator signer"
					case wasWaiting:
						bad = "waiting node edited"
					}
					if bad != "" {
						violation = "C23: " + bad
						logf("stake op=%s amt=%d out=%s del=%v signer=%s", op.addr, amt, out, del, sg.addr)
						return
					}
				}
				logf("stake op=%s amt=%d out=%s del=%v signer=%s -> ok=%v %s", op.addr, amt, out, del, sg.addr, res.IsOK(), res.Log)
			case c < 50: // begin unstake
				sg, _ := signerFor(op)
				res := e.deliver(types.MsgBeginUnstake{Address: op.addr, Signer: sg.addr}, sg.pub)
				logf("begin-unstake op=%s signer=%s -> ok=%v", op.addr, sg.addr, res.IsOK())
			case c < 65: // unjail
				sg, _ := signerFor(op)
				bv, bfound := e.k.GetValidator(e.ctx, op.addr)
				bi, _ := e.k.GetValidatorSigningInfo(e.ctx, op.addr)
				res := e.deliver(types.MsgUnjail{ValidatorAddr: op.addr, Signer: sg.addr}, sg.pub)
				logf("unjail op=%s -> ok=%v", op.addr, res.IsOK())
				if res.IsOK() {
					if !bfound || !bv.Jailed || bv.StakedTokens.LT(sdk.NewInt(e.k.MinimumStake(e.ctx))) {
						violation = "C25: unjail accepted for non-jailed / below-minimum node"
						return
					}
					_ = bi
					if e.ctx.BlockHeader().Time.Before(jailedAt[op.addr.String()]) && !editSince[op.addr.String()] {
						violation = fmt.Sprintf("C25: unjail at %s before jail period %s passed (no edit-stake in between)", e.ctx.BlockHeader().Time, jailedAt[op.addr.String()])
						return
					}
				}
			case c < 75: // send
				to := outs[r.Intn(len(outs))].addr
				res := e.deliver(types.MsgSend{FromAddress: op.addr, ToAddress: to, Amount: sdk.NewInt(int64(1 + r.Intn(1000)))}, op.pub)
				logf("send %s->%s ok=%v", op.addr, to, res.IsOK())
			case c < 88: // relay reward
				relays := sdk.NewInt(int64(1 + r.Intn(100000)))
				rv, rfound := e.k.GetValidator(e.ctx, op.addr)
				s0 := e.ak.GetSupply(e.ctx).GetTotal().AmountOf(sdk.DefaultStakeDenom)
				e.k.RewardForRelaysPerChain(e.ctx, "0001", relays, op.addr)
				s1 := e.ak.GetSupply(e.ctx).GetTotal().AmountOf(sdk.DefaultStakeDenom)
				logf("reward op=%s relays=%s minted=%s", op.addr, relays, s1.Sub(s0))
				if rfound {
					tn, tf := e.k.CalculateRelayReward(e.ctx, "0001", relays, rv.StakedTokens)
					if !s1.Sub(s0).Equal(tn.Add(tf)) {
						violation = fmt.Sprintf("C26: minted %s but computed reward %s (node %s + fee %s); delegators=%v", s1.Sub(s0), tn.Add(tf), tn, tf, rv.RewardDelegators)
						return
					}
				}
			case c < 96: // challenge burn
				n := int64(1 + r.Intn(30000))
				bv, bfound := e.k.GetValidator(e.ctx, op.addr)
				s0 := e.ak.GetSupply(e.ctx).GetTotal().AmountOf(sdk.DefaultStakeDenom)
				e.k.BurnForChallenge(e.ctx, sdk.NewInt(n), op.addr)
				s1 := e.ak.GetSupply(e.ctx).GetTotal().AmountOf(sdk.DefaultStakeDenom)
				logf("burn-for-challenge op=%s n=%d burned=%s", op.addr, n, s0.Sub(s1))
				if bfound {
					av, _ := e.k.GetValidator(e.ctx, op.addr)
					burned := s0.Sub(s1)
					if burned.GT(bv.StakedTokens) || !bv.StakedTokens.Sub(av.StakedTokens).Equal(burned) {
						violation = fmt.Sprintf("C25: burned %s, stake before %s after %s", burned, bv.StakedTokens, av.StakedTokens)
						return
					}
					if !bv.IsUnstaked() && burned.IsPositive() && av.StakedTokens.LT(sdk.NewInt(e.k.MinimumStake(e.ctx))) {
						if !av.Jailed || !(e.k.IsWaitingValidator(e.ctx, op.addr) || av.IsUnstaking()) {
							violation = fmt.Sprintf("C25: node below minimum after slash but jailed=%v waiting=%v status=%d", av.Jailed, e.k.IsWaitingValidator(e.ctx, op.addr), av.Status)
							return
						}
					}
				}
			default: // governance
				if r.Intn(2) == 0 {
					mv := int64(1 + r.Intn(6))
					p := e.k.GetParams(e.ctx)
					p.MaxValidators = mv
					e.k.SetParams(e.ctx, p)
					logf("gov MaxValidators=%d", mv)
				} else {
					p := e.k.GetParams(e.ctx)
					p.StakeMinimum = int64(15000000 + r.Intn(2)*15000000)
					e.k.SetParams(e.ctx, p)
					logf("gov StakeMinimum=%d", p.StakeMinimum)
				}
			}
		}
		// ---- EndBlock
		type due struct {
			v    types.Validator
			out  sdk.Address
			bal  sdk.BigInt
			must bool
		}
		var dues []due
		preStaked := map[string]bool{}
		for _, v := range e.k.GetAllValidators(e.ctx) {
			if v.IsStaked() {
				preStaked[v.Address.String()] = true
			}
			if v.IsUnstaking() {
				o := e.k.GetOutputAddressFromValidator(v)
				dues = append(dues, due{v, o, e.ak.GetCoins(e.ctx, o).AmountOf(sdk.DefaultStakeDenom), !v.UnstakingCompletionTime.After(e.ctx.BlockHeader().Time)})
			}
		}
		ups := keeper.EndBlocker(e.ctx, e.k)
		{
			// C24
			paid := map[string]sdk.BigInt{}
			for _, d := range dues {
				_, still := e.k.GetValidator(e.ctx, d.v.Address)
				if d.must && still {
					violation = fmt.Sprintf("C24: node %s due at %s still exists at block time %s", d.v.Address, d.v.UnstakingCompletionTime, e.ctx.BlockHeader().Time)
					return
				}
				if !d.must && !still {
					violation = fmt.Sprintf("C24: node %s removed before completion time", d.v.Address)
					return
				}
				if d.must {
					if _, ok := paid[d.out.String()]; !ok {
						paid[d.out.String()] = sdk.ZeroInt()
					}
					paid[d.out.String()] = paid[d.out.String()].Add(d.v.StakedTokens)
				}
			}
			for _, d := range dues {
				if d.must {
					now := e.ak.GetCoins(e.ctx, d.out).AmountOf(sdk.DefaultStakeDenom)
					// all balances of one output address were snapshotted at the same time
					if !now.Sub(d.bal).Equal(paid[d.out.String()]) {
						violation = fmt.Sprintf("C24: output %s received %s, expected %s", d.out, now.Sub(d.bal), paid[d.out.String()])
						return
					}
				}
			}
			for _, v := range e.k.GetAllValidators(e.ctx) {
				if preStaked[v.Address.String()] && !v.IsStaked() {
					if e.ctx.BlockHeight()%e.k.BlocksPerSession(e.ctx) != 0 {
						violation = fmt.Sprintf("C24: node %s left staked state outside session end / without waiting entry (h=%d)", v.Address, e.ctx.BlockHeight())
						return
					}
				}
			}
		}
		for _, u := range ups {
			pk := hex.EncodeToString(u.PubKey.Data)
			if u.Power == 0 {
				delete(tm, pk)
			} else {
				tm[pk] = u.Power
			}
		}
		cp := map[string]int64{}
		for k, v := range tm {
			cp[k] = v
		}
		tmHist = append(tmHist, cp)
		if check(fmt.Sprintf("after block %d", h)) {
			return
		}
		// next block
		dt := time.Duration(30+r.Intn(120)) * time.Second
		e.ctx = e.ctx.WithBlockHeight(h + 1).WithBlockTime(e.ctx.BlockHeader().Time.Add(dt))
	}
	return "", trace
}

func TestZZAuditFuzzNoModuleParties(t *testing.T) {
	found := map[string]bool{}
	for seed := int64(1); seed <= 150; seed++ {
		v, tr := zzRunSeed(t, seed, 150, false, false)
		if v != "" {
			key := v
			if len(key) > 60 {
				key = key[len(key)-60:]
			}
			t.Logf("seed %d: VIOLATION %s", seed, v)
			if !found[v[len("after block 1"):][:20]] {
				found[v[len("after block 1"):][:20]] = true
				n := len(tr)
				s := 0
				if n > 40 {
					s = n - 40
				}
				for _, l := range tr[s:] {
					t.Log("   " + l)
				}
			}
		}
	}
}
