package nodes

import (
	"testing"
	"time"

	sdk "github.com/pokt-network/pocket-core/types"
	"github.com/pokt-network/pocket-core/x/nodes/keeper"
	"github.com/pokt-network/pocket-core/x/nodes/types"
)

// C19: the node staking pool's own address is accepted as a party (output address, reward
// delegator, recipient of MsgSend). Relay rewards are "minted into the pool then sent out" -- but sent
// to the pool itself, so they stay there; the unstaked principal is "returned" to the pool as well.
// From then on the pool balance is larger than the sum of the staked tokens.
func TestZZAudit_C19_PoolAddressAsOutputAddressOrDelegator(t *testing.T) {
	defer zzAllFeaturesOn()()
	e := zzSetup(t)
	pool := e.ak.GetModuleAddress(types.StakedPoolName)

	opA, opB, friend := zzNewKey(), zzNewKey(), zzNewKey()
	e.fund(opA.addr, 100000000)
	e.fund(opB.addr, 100000000)
	e.fund(friend.addr, 1000)

	// node A: output address = node staking pool address
	res := e.deliver(types.MsgStake{PublicKey: opA.pub, Chains: []string{"0001"}, Value: sdk.NewInt(30000000),
		ServiceUrl: "https://x.y:443", Output: pool}, opA.pub)
	if !res.IsOK() {
		t.Fatalf("stake A refused: %s", res.Log)
	}
	// node B: ordinary output address, but the pool is a 25% reward delegator
	res = e.deliver(types.MsgStake{PublicKey: opB.pub, Chains: []string{"0001"}, Value: sdk.NewInt(30000000),
		ServiceUrl: "https://x.y:443", Output: friend.addr, RewardDelegators: map[string]uint32{pool.String(): 25}}, opB.pub)
	if !res.IsOK() {
		t.Fatalf("stake B refused: %s", res.Log)
	}
	keeper.EndBlocker(e.ctx, e.k)
	if s := e.checkC19(); s != "" {
		t.Fatalf("unexpected: %s", s)
	}
	t.Logf("after staking      : pool=%s (C19 holds) supply/balances ok=%v", e.k.GetStakedTokens(e.ctx), e.checkC17() == "")

	// an accepted relay proof for node B, then for node A
	e.ctx = e.ctx.WithBlockHeight(100002).WithBlockTime(e.ctx.BlockHeader().Time.Add(time.Minute))
	e.k.RewardForRelaysPerChain(e.ctx, "0001", sdk.NewInt(100000), opB.addr)
	keeper.EndBlocker(e.ctx, e.k)
	s1 := e.checkC19()
	t.Logf("after reward to B  : %q", s1)
	e.ctx = e.ctx.WithBlockHeight(100003).WithBlockTime(e.ctx.BlockHeader().Time.Add(time.Minute))
	e.k.RewardForRelaysPerChain(e.ctx, "0001", sdk.NewInt(100000), opA.addr)
	keeper.EndBlocker(e.ctx, e.k)
	s2 := e.checkC19()
	t.Logf("after reward to A  : %q", s2)

	// node A unstakes: begin-unstake, session end (height%4==0), unstaking time passes
	res = e.deliver(types.MsgBeginUnstake{Address: opA.addr, Signer: opA.addr}, opA.pub)
	if !res.IsOK() {
		t.Fatalf("begin unstake refused: %s", res.Log)
	}
	e.ctx = e.ctx.WithBlockHeight(100004).WithBlockTime(e.ctx.BlockHeader().Time.Add(time.Minute))
	keeper.EndBlocker(e.ctx, e.k)
	e.ctx = e.ctx.WithBlockHeight(100005).WithBlockTime(e.ctx.BlockHeader().Time.Add(11 * time.Minute))
	keeper.EndBlocker(e.ctx, e.k)
	_, stillThere := e.k.GetValidator(e.ctx, opA.addr)
	s3 := e.checkC19()
	t.Logf("after A unstaked   : record exists=%v  %q", stillThere, s3)
	t.Logf("C17 (supply) check : %q", e.checkC17())

	if s1 != "" || s2 != "" || s3 != "" {
		t.Errorf("C19 VIOLATED: node staking pool no longer equals the staked tokens of staked/unstaking nodes:\n  %s\n  %s\n  %s", s1, s2, s3)
	}
}

// Same property, simplest trigger: an ordinary MsgSend to the pool address is accepted.
func TestZZAudit_C19_PlainSendToPoolAddress(t *testing.T) {
	defer zzAllFeaturesOn()()
	e := zzSetup(t)
	pool := e.ak.GetModuleAddress(types.StakedPoolName)
	op, user := zzNewKey(), zzNewKey()
	e.fund(op.addr, 100000000)
	e.fund(user.addr, 100000000)
	res := e.deliver(types.MsgStake{PublicKey: op.pub, Chains: []string{"0001"}, Value: sdk.NewInt(30000000),
		ServiceUrl: "https://x.y:443", Output: op.addr}, op.pub)
	if !res.IsOK() {
		t.Fatalf("stake refused: %s", res.Log)
	}
	res = e.deliver(types.MsgSend{FromAddress: user.addr, ToAddress: pool, Amount: sdk.NewInt(12345)}, user.pub)
	t.Logf("MsgSend to pool accepted=%v", res.IsOK())
	keeper.EndBlocker(e.ctx, e.k)
	if s := e.checkC19(); s != "" {
		t.Errorf("C19 VIOLATED: %s", s)
	}
}
