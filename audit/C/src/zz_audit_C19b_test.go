package nodes

import (
	"testing"
	"time"

	sdk "github.com/pokt-network/pocket-core/types"
	"github.com/pokt-network/pocket-core/x/nodes/keeper"
	"github.com/pokt-network/pocket-core/x/nodes/types"
)

// C19 (and as a consequence C24): InitGenesis accepts nodes in the *unstaking* state ("the validators
// must be staked or unstaking at genesis") but only funds the staking pool with the tokens of the
// *staked* ones. The pool is short from block 1 on; when the unstaking node matures it is paid out of
// the other nodes' stake, and the last node to leave gets nothing back although its record is deleted.
func TestZZAudit_C19_C24_GenesisUnstakingNodeNotFunded(t *testing.T) {
	defer zzAllFeaturesOn()()
	e := zzSetup(t)
	t0 := e.ctx.BlockHeader().Time

	k1, k2 := zzNewKey(), zzNewKey()
	v1 := types.NewValidator(k1.addr, k1.pub, []string{"0001"}, "https://x.y:443", sdk.NewInt(30000000), k1.addr)
	v2 := types.NewValidator(k2.addr, k2.pub, []string{"0001"}, "https://x.y:443", sdk.NewInt(20000000), k2.addr)
	v2.Status = sdk.Unstaking
	v2.UnstakingCompletionTime = t0.Add(5 * time.Minute)

	gs := types.GenesisState{Params: e.k.GetParams(e.ctx), Validators: []types.Validator{v1, v2}}
	if err := ValidateGenesis(gs); err != nil {
		t.Fatalf("genesis rejected by ValidateGenesis: %v", err)
	}
	InitGenesis(e.ctx, e.k, e.ak, gs)
	e.ctx = e.ctx.WithBlockHeight(100001).WithBlockTime(t0)

	s0 := e.checkC19()
	t.Logf("after InitGenesis          : pool=%s  %q   (C17: %q)", e.k.GetStakedTokens(e.ctx), s0, e.checkC17())

	// block at t0+6min: v2 matures
	e.ctx = e.ctx.WithBlockHeight(100002).WithBlockTime(t0.Add(6 * time.Minute))
	keeper.EndBlocker(e.ctx, e.k)
	_, v2exists := e.k.GetValidator(e.ctx, k2.addr)
	s1 := e.checkC19()
	t.Logf("after v2 matured           : v2 exists=%v v2 balance=%s pool=%s  %q", v2exists,
		e.ak.GetCoins(e.ctx, k2.addr), e.k.GetStakedTokens(e.ctx), s1)

	// v1 (30,000,000 staked, a perfectly ordinary node) now unstakes
	res := e.deliver(types.MsgBeginUnstake{Address: k1.addr, Signer: k1.addr}, k1.pub)
	if !res.IsOK() {
		t.Fatalf("begin-unstake refused: %s", res.Log)
	}
	e.ctx = e.ctx.WithBlockHeight(100004).WithBlockTime(t0.Add(7 * time.Minute)) // session end
	keeper.EndBlocker(e.ctx, e.k)
	e.ctx = e.ctx.WithBlockHeight(100005).WithBlockTime(t0.Add(20 * time.Minute)) // unstaking time (10m) over
	keeper.EndBlocker(e.ctx, e.k)
	_, v1exists := e.k.GetValidator(e.ctx, k1.addr)
	bal1 := e.ak.GetCoins(e.ctx, k1.addr).AmountOf(sdk.DefaultStakeDenom)
	t.Logf("after v1 finished unstaking: v1 exists=%v v1 balance=%s pool=%s", v1exists, bal1, e.k.GetStakedTokens(e.ctx))

	if s0 != "" {
		t.Errorf("C19 VIOLATED right after InitGenesis: %s", s0)
	}
	if s1 != "" {
		t.Errorf("C19 VIOLATED after the genesis-unstaking node was paid out of other nodes' stake: %s", s1)
	}
	if !v1exists && !bal1.Equal(sdk.NewInt(30000000)) {
		t.Errorf("C24 VIOLATED: v1's record is gone but its 30000000 stake was not returned (balance %s)", bal1)
	}
}
