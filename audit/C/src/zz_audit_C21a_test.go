package nodes

import (
	"testing"
	"time"

	sdk "github.com/pokt-network/pocket-core/types"
	"github.com/pokt-network/pocket-core/x/nodes/keeper"
	"github.com/pokt-network/pocket-core/x/nodes/types"
)

// C21: every record write of a node that is already unstaking (slash, jail, unjail) appends the node
// to the unstaking queue again (SetValidator -> SetUnstakingValidator), so the queue no longer holds
// "exactly the unstaking nodes": the same node is listed several times under its completion time.
func TestZZAudit_C21_UnstakingQueueListsNodeSeveralTimes(t *testing.T) {
	defer zzAllFeaturesOn()()
	e := zzSetup(t)
	op := zzNewKey()
	e.fund(op.addr, 100000000)
	if r := e.deliver(types.MsgStake{PublicKey: op.pub, Chains: []string{"0001"}, Value: sdk.NewInt(45000000),
		ServiceUrl: "https://x.y:443", Output: op.addr}, op.pub); !r.IsOK() {
		t.Fatalf("stake refused: %s", r.Log)
	}
	if r := e.deliver(types.MsgBeginUnstake{Address: op.addr, Signer: op.addr}, op.pub); !r.IsOK() {
		t.Fatalf("begin-unstake refused: %s", r.Log)
	}
	e.ctx = e.ctx.WithBlockHeight(100004).WithBlockTime(e.ctx.BlockHeader().Time.Add(time.Minute)) // session end
	keeper.EndBlocker(e.ctx, e.k)
	v, _ := e.k.GetValidator(e.ctx, op.addr)
	t.Logf("node status=%d (1=unstaking) completion=%s ; C21 check: %q", v.Status, v.UnstakingCompletionTime, e.checkC21())

	// a challenge burn (any slash) against the unstaking node
	e.ctx = e.ctx.WithBlockHeight(100005).WithBlockTime(e.ctx.BlockHeader().Time.Add(time.Minute))
	e.k.BurnForChallenge(e.ctx, sdk.NewInt(10), op.addr)
	keeper.EndBlocker(e.ctx, e.k)
	s1 := e.checkC21()
	t.Logf("after one slash of the unstaking node : %q", s1)
	// jail it (e.g. downtime) and slash again
	e.k.JailValidator(e.ctx, op.addr)
	e.k.BurnForChallenge(e.ctx, sdk.NewInt(10), op.addr)
	s2 := e.checkC21()
	t.Logf("after jail + second slash             : %q", s2)
	if s1 != "" || s2 != "" {
		t.Errorf("C21 VIOLATED: %s / %s", s1, s2)
	}
}
