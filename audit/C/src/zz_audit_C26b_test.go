package nodes

import (
	"testing"
	"time"

	sdk "github.com/pokt-network/pocket-core/types"
	"github.com/pokt-network/pocket-core/x/auth"
	govTypes "github.com/pokt-network/pocket-core/x/gov/types"
	"github.com/pokt-network/pocket-core/x/nodes/keeper"
	"github.com/pokt-network/pocket-core/x/nodes/types"
	abci "github.com/tendermint/tendermint/abci/types"
)

// C26 (fee split): when the proposer of the previous block no longer has a node record (it finished
// unstaking in that very block: short/zero UnstakingTime, the Tendermint set lags 2 blocks), blockReward
// pays the DAO cut and then returns; the proposer part is not paid to anybody. The two parts paid out
// do not add up to the collected fees, and the remainder is re-split (DAO first) in later blocks.
func TestZZAudit_C26_ProposerCutWithheldWhenProposerRecordGone(t *testing.T) {
	defer zzAllFeaturesOn()()
	e := zzSetup(t)
	p := e.k.GetParams(e.ctx)
	p.UnstakingTime = 0
	e.k.SetParams(e.ctx, p)

	op, other := zzNewKey(), zzNewKey()
	e.fund(op.addr, 100000000)
	e.fund(other.addr, 100000000)
	for _, k := range []zzKey{op, other} {
		if r := e.deliver(types.MsgStake{PublicKey: k.pub, Chains: []string{"0001"}, Value: sdk.NewInt(30000000),
			ServiceUrl: "https://x.y:443", Output: k.addr}, k.pub); !r.IsOK() {
			t.Fatalf("stake refused: %s", r.Log)
		}
	}
	keeper.EndBlocker(e.ctx, e.k) // h=100001

	// h=100004 (session end): op proposes this block, and its begin-unstake tx is in it
	e.ctx = e.ctx.WithBlockHeight(100004).WithBlockTime(e.ctx.BlockHeader().Time.Add(time.Minute))
	keeper.BeginBlocker(e.ctx, abci.RequestBeginBlock{Header: abci.Header{ProposerAddress: op.addr}}, e.k)
	if r := e.deliver(types.MsgBeginUnstake{Address: op.addr, Signer: op.addr}, op.pub); !r.IsOK() {
		t.Fatalf("begin-unstake refused: %s", r.Log)
	}
	// fees collected in this block (10 txs worth)
	feeAddr := e.ak.GetModuleAddress(auth.FeeCollectorName)
	if err := e.ak.SendCoins(e.ctx, other.addr, feeAddr, sdk.NewCoins(sdk.NewCoin(sdk.DefaultStakeDenom, sdk.NewInt(110000)))); err != nil {
		t.Fatal(err)
	}
	keeper.EndBlocker(e.ctx, e.k)
	_, exists := e.k.GetValidator(e.ctx, op.addr)
	t.Logf("end of block 100004: proposer node record exists=%v (unstaked, stake returned: balance %s)", exists, e.ak.GetCoins(e.ctx, op.addr))

	// h=100005: fees of block 100004 are distributed to DAO + proposer of 100004
	e.ctx = e.ctx.WithBlockHeight(100005).WithBlockTime(e.ctx.BlockHeader().Time.Add(time.Minute))
	dao0 := e.ak.GetCoins(e.ctx, e.ak.GetModuleAddress(govTypes.DAOAccountName)).AmountOf(sdk.DefaultStakeDenom)
	op0 := e.ak.GetCoins(e.ctx, op.addr).AmountOf(sdk.DefaultStakeDenom)
	keeper.BeginBlocker(e.ctx, abci.RequestBeginBlock{Header: abci.Header{ProposerAddress: other.addr}}, e.k)
	daoGot := e.ak.GetCoins(e.ctx, e.ak.GetModuleAddress(govTypes.DAOAccountName)).AmountOf(sdk.DefaultStakeDenom).Sub(dao0)
	opGot := e.ak.GetCoins(e.ctx, op.addr).AmountOf(sdk.DefaultStakeDenom).Sub(op0)
	left := e.ak.GetCoins(e.ctx, feeAddr).AmountOf(sdk.DefaultStakeDenom)
	t.Logf("fees collected=110000 (DAO:proposer = 10:1): DAO got %s, proposer got %s, left in fee collector %s", daoGot, opGot, left)
	if !daoGot.Add(opGot).Equal(sdk.NewInt(110000)) {
		t.Errorf("C26 VIOLATED: DAO part (%s) + proposer part (%s) != fees collected (110000)", daoGot, opGot)
	}
	// next block: the withheld proposer part is split again, the DAO takes 10/11 of it
	e.ctx = e.ctx.WithBlockHeight(100006).WithBlockTime(e.ctx.BlockHeader().Time.Add(time.Minute))
	dao1 := e.ak.GetCoins(e.ctx, e.ak.GetModuleAddress(govTypes.DAOAccountName)).AmountOf(sdk.DefaultStakeDenom)
	keeper.BeginBlocker(e.ctx, abci.RequestBeginBlock{Header: abci.Header{ProposerAddress: other.addr}}, e.k)
	t.Logf("next block: DAO receives another %s out of the withheld proposer part",
		e.ak.GetCoins(e.ctx, e.ak.GetModuleAddress(govTypes.DAOAccountName)).AmountOf(sdk.DefaultStakeDenom).Sub(dao1))
}
