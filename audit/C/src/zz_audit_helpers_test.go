package nodes

import (
	"bytes"
	"encoding/binary"
	"encoding/hex"
	"fmt"
	"sort"
	"testing"
	"time"

	"github.com/pokt-network/pocket-core/codec"
	"github.com/pokt-network/pocket-core/crypto"
	"github.com/pokt-network/pocket-core/store"
	sdk "github.com/pokt-network/pocket-core/types"
	"github.com/pokt-network/pocket-core/types/module"
	"github.com/pokt-network/pocket-core/x/auth"
	govTypes "github.com/pokt-network/pocket-core/x/gov/types"
	"github.com/pokt-network/pocket-core/x/nodes/keeper"
	"github.com/pokt-network/pocket-core/x/nodes/types"
	abci "github.com/tendermint/tendermint/abci/types"
	"github.com/tendermint/tendermint/libs/log"
	tmtypes "github.com/tendermint/tendermint/types"
	dbm "github.com/tendermint/tm-db"
)

type zzMockPK struct{}

func (zzMockPK) ClearSessionCache() {}

type zzEnv struct {
	ctx    sdk.Context
	k      keeper.Keeper
	ak     auth.Keeper
	keyPOS *sdk.KVStoreKey
}

func zzAllFeaturesOn() func() {
	oTM, oUH := codec.TestMode, codec.UpgradeHeight
	oMap := map[string]int64{}
	for k, v := range codec.UpgradeFeatureMap {
		oMap[k] = v
	}
	codec.TestMode = -3
	codec.UpgradeHeight = -1
	for _, key := range []string{codec.RSCALKey, codec.VEDITKey, codec.ClearUnjailedValSessionKey, codec.ReplayBurnKey,
		codec.MaxRelayProtKey, codec.OutputAddressEditKey, codec.NonCustodialUpdateKey, codec.PerChainRTTM,
		codec.AppTransferKey, codec.RewardDelegatorsKey, codec.EnforceMaxChainsUpdateKey, codec.ValidatorSplitUpdateKey} {
		codec.UpgradeFeatureMap[key] = 1
	}
	return func() {
		codec.TestMode, codec.UpgradeHeight = oTM, oUH
		for k := range codec.UpgradeFeatureMap {
			delete(codec.UpgradeFeatureMap, k)
		}
		for k, v := range oMap {
			codec.UpgradeFeatureMap[k] = v
		}
	}
}

func zzSetup(t *testing.T) *zzEnv {
	keyAcc := sdk.NewKVStoreKey(auth.StoreKey)
	keyPOS := sdk.NewKVStoreKey(types.ModuleName)
	db := dbm.NewMemDB()
	ms := store.NewCommitMultiStore(db, false, 5000000)
	ms.MountStoreWithDB(keyAcc, sdk.StoreTypeIAVL, db)
	ms.MountStoreWithDB(sdk.ParamsKey, sdk.StoreTypeIAVL, db)
	ms.MountStoreWithDB(sdk.ParamsTKey, sdk.StoreTypeTransient, db)
	ms.MountStoreWithDB(keyPOS, sdk.StoreTypeIAVL, db)
	if err := ms.LoadLatestVersion(); err != nil {
		t.Fatal(err)
	}
	ctx := sdk.NewContext(ms, abci.Header{ChainID: "test-chain", Height: 100001, Time: time.Unix(1700000000, 0).UTC()}, false, log.NewNopLogger()).WithAppVersion("0.0.0")
	ctx = ctx.WithConsensusParams(&abci.ConsensusParams{Validator: &abci.ValidatorParams{PubKeyTypes: []string{tmtypes.ABCIPubKeyTypeEd25519}}})
	cdc := makeTestCodec()
	maccPerms := map[string][]string{
		auth.FeeCollectorName:   {auth.Burner, auth.Staking, auth.Minter},
		types.StakedPoolName:    {auth.Burner, auth.Staking, auth.Minter},
		govTypes.DAOAccountName: {auth.Burner, auth.Staking, auth.Minter},
	}
	ak := auth.NewKeeper(cdc, keyAcc, sdk.NewSubspace(auth.DefaultParamspace), maccPerms)
	mm := module.NewManager(auth.NewAppModule(ak))
	mm.InitGenesis(ctx, ModuleBasics.DefaultGenesis())
	k := keeper.NewKeeper(cdc, keyPOS, ak, sdk.NewSubspace(types.DefaultParamspace), sdk.CodespaceType("pos"))
	k.PocketKeeper = zzMockPK{}
	p := types.DefaultParams()
	p.ServicerStakeFloorMultiplier = 15000000
	p.ServicerStakeWeightCeiling = 60000000
	p.ServicerStakeWeightMultiplier = sdk.NewDec(1)
	p.ServicerStakeFloorMultiplierExponent = sdk.NewDec(1)
	p.StakeMinimum = 15000000
	p.SessionBlockFrequency = 4
	p.SignedBlocksWindow = 10
	p.MinSignedPerWindow = sdk.NewDecWithPrec(6, 1)
	p.UnstakingTime = 10 * time.Minute
	p.DowntimeJailDuration = 3 * time.Minute
	p.MaxJailedBlocks = 12
	p.MaxValidators = 5
	p.MaxEvidenceAge = 60 * time.Minute
	k.SetParams(ctx, p)
	// module accounts must exist
	_ = ak.GetModuleAccount(ctx, auth.FeeCollectorName)
	_ = ak.GetModuleAccount(ctx, types.StakedPoolName)
	_ = ak.GetModuleAccount(ctx, govTypes.DAOAccountName)
	return &zzEnv{ctx: ctx, k: k, ak: ak, keyPOS: keyPOS}
}

// fund: credit an account AND the supply so that supply==sum(balances) holds at "genesis"
func (e *zzEnv) fund(addr sdk.Address, amt int64) {
	coins := sdk.NewCoins(sdk.NewCoin(sdk.DefaultStakeDenom, sdk.NewInt(amt)))
	if _, err := e.ak.AddCoins(e.ctx, addr, coins); err != nil {
		panic(err)
	}
	e.ak.SetSupply(e.ctx, e.ak.GetSupply(e.ctx).Inflate(coins))
}

func (e *zzEnv) sumBalances() sdk.BigInt {
	tot := sdk.ZeroInt()
	for _, a := range e.ak.GetAllAccounts(e.ctx) {
		tot = tot.Add(a.GetCoins().AmountOf(sdk.DefaultStakeDenom))
	}
	return tot
}

// ---------- invariant checks ----------

func (e *zzEnv) checkC17() string {
	s := e.ak.GetSupply(e.ctx).GetTotal().AmountOf(sdk.DefaultStakeDenom)
	b := e.sumBalances()
	if !s.Equal(b) {
		return fmt.Sprintf("C17: supply %s != sum balances %s", s, b)
	}
	return ""
}

func (e *zzEnv) checkC19() string {
	pool := e.k.GetStakedTokens(e.ctx)
	sum := sdk.ZeroInt()
	for _, v := range e.k.GetAllValidators(e.ctx) {
		if v.IsStaked() || v.IsUnstaking() {
			sum = sum.Add(v.StakedTokens)
		}
	}
	if !pool.Equal(sum) {
		return fmt.Sprintf("C19: pool %s != sum staked/unstaking %s", pool, sum)
	}
	return ""
}

func (e *zzEnv) checkC21() string {
	st := e.ctx.KVStore(e.keyPOS)
	vals := e.k.GetAllValidators(e.ctx)
	byAddr := map[string]types.Validator{}
	for _, v := range vals {
		byAddr[v.Address.String()] = v
	}
	// staked set
	seen := map[string]bool{}
	it, _ := sdk.KVStorePrefixIterator(st, types.StakedValidatorsKey)
	for ; it.Valid(); it.Next() {
		addr := sdk.Address(it.Value())
		v, ok := byAddr[addr.String()]
		if !ok {
			it.Close()
			return fmt.Sprintf("C21: staked-set entry for missing validator %s", addr)
		}
		if !v.IsStaked() || v.IsJailed() {
			it.Close()
			return fmt.Sprintf("C21: staked-set entry for validator %s status=%d jailed=%v", addr, v.Status, v.Jailed)
		}
		if !bytes.Equal(it.Key(), types.KeyForValidatorInStakingSet(v)) {
			pw := binary.BigEndian.Uint64(it.Key()[1:9])
			it.Close()
			return fmt.Sprintf("C21: staked-set entry for %s under power %d but current power %d", addr, pw, v.ConsensusPower())
		}
		if seen[addr.String()] {
			it.Close()
			return fmt.Sprintf("C21: validator %s twice in staked set", addr)
		}
		seen[addr.String()] = true
	}
	it.Close()
	for _, v := range vals {
		if v.IsStaked() && !v.IsJailed() && !seen[v.Address.String()] {
			return fmt.Sprintf("C21: staked unjailed validator %s missing from staked set", v.Address)
		}
	}
	// chain index
	chainSeen := map[string]bool{}
	it, _ = sdk.KVStorePrefixIterator(st, types.StakedValidatorsByNetIDKey)
	for ; it.Valid(); it.Next() {
		key := it.Key()
		chain := hex.EncodeToString(key[1:3])
		addr := sdk.Address(key[3:])
		v, ok := byAddr[addr.String()]
		if !ok {
			it.Close()
			return fmt.Sprintf("C21: chain-index entry (%s) for missing validator %s", chain, addr)
		}
		if !v.IsStaked() {
			it.Close()
			return fmt.Sprintf("C21: chain-index entry (%s) for validator %s with status %d", chain, addr, v.Status)
		}
		has := false
		for _, c := range v.Chains {
			if c == chain {
				has = true
			}
		}
		if !has {
			it.Close()
			return fmt.Sprintf("C21: chain-index entry (%s) for validator %s that declares %v", chain, addr, v.Chains)
		}
		chainSeen[chain+"/"+addr.String()] = true
	}
	it.Close()
	for _, v := range vals {
		if v.IsStaked() {
			for _, c := range v.Chains {
				if !chainSeen[c+"/"+v.Address.String()] {
					return fmt.Sprintf("C21: staked validator %s (jailed=%v) missing from chain index %s", v.Address, v.Jailed, c)
				}
			}
		}
	}
	// unstaking queue
	qSeen := map[string]int{}
	it, _ = sdk.KVStorePrefixIterator(st, types.UnstakingValidatorsKey)
	for ; it.Valid(); it.Next() {
		var addrs sdk.Addresses
		_ = e.k.Cdc.UnmarshalBinaryLengthPrefixed(it.Value(), &addrs, e.ctx.BlockHeight())
		for _, a := range addrs {
			v, ok := byAddr[a.String()]
			if !ok {
				it.Close()
				return fmt.Sprintf("C21: unstaking-queue entry for missing validator %s", a)
			}
			if !v.IsUnstaking() {
				it.Close()
				return fmt.Sprintf("C21: unstaking-queue entry for validator %s with status %d", a, v.Status)
			}
			if !bytes.Equal(it.Key(), types.KeyForUnstakingValidators(v.UnstakingCompletionTime)) {
				it.Close()
				return fmt.Sprintf("C21: unstaking-queue entry for %s under wrong time", a)
			}
			qSeen[a.String()]++
		}
	}
	it.Close()
	for _, v := range vals {
		if v.IsUnstaking() && qSeen[v.Address.String()] == 0 {
			return fmt.Sprintf("C21: unstaking validator %s missing from queue", v.Address)
		}
	}
	for a, n := range qSeen {
		if n > 1 {
			return fmt.Sprintf("C21(dup): unstaking validator %s listed %d times in queue", a, n)
		}
	}
	return ""
}

// tm: model of the consensus set pubkey-hex -> power
func (e *zzEnv) checkC22(tm map[string]int64) string {
	vals := e.k.GetAllValidators(e.ctx)
	maxV := int(e.k.MaxValidators(e.ctx))
	type cand struct {
		pk    string
		power int64
		addr  string
	}
	var cands []cand
	for _, v := range vals {
		if v.IsStaked() && !v.IsJailed() && v.ConsensusPower() > 0 {
			cands = append(cands, cand{hex.EncodeToString(v.PublicKey.RawBytes()), v.ConsensusPower(), v.Address.String()})
		}
	}
	sort.Slice(cands, func(i, j int) bool { return cands[i].power > cands[j].power })
	want := len(cands)
	if want > maxV {
		want = maxV
	}
	if len(tm) != want {
		return fmt.Sprintf("C22: consensus set has %d members, expected %d (max %d, eligible %d)", len(tm), want, maxV, len(cands))
	}
	cm := map[string]cand{}
	for _, c := range cands {
		cm[c.pk] = c
	}
	minIn := int64(-1)
	for pk, pw := range tm {
		c, ok := cm[pk]
		if !ok {
			return fmt.Sprintf("C22: consensus member %s (power %d) is not a staked unjailed node", pk[:8], pw)
		}
		if c.power != pw {
			return fmt.Sprintf("C22: consensus member %s has power %d, node has %d", c.addr, pw, c.power)
		}
		if minIn == -1 || pw < minIn {
			minIn = pw
		}
	}
	for _, c := range cands {
		if _, in := tm[c.pk]; !in && c.power > minIn && minIn != -1 {
			return fmt.Sprintf("C22: node %s power %d outside the set although member with power %d is inside", c.addr, c.power, minIn)
		}
	}
	return ""
}

// ---------- driver ----------

type zzKey struct {
	priv crypto.PrivateKey
	pub  crypto.PublicKey
	addr sdk.Address
}

func zzNewKey() zzKey {
	p := crypto.GenerateEd25519PrivKey()
	return zzKey{p, p.PublicKey(), sdk.Address(p.PublicKey().Address())}
}

func (e *zzEnv) deliver(msg sdk.Msg, signer crypto.PublicKey) sdk.Result {
	if err := msg.ValidateBasic(); err != nil {
		return err.Result()
	}
	cc, write := e.ctx.CacheContext()
	res := NewHandler(e.k)(cc, msg, signer)
	if res.IsOK() {
		write()
	}
	return res
}
